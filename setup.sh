#!/bin/sh
# Build the framework from files on disk only (offline): parse every specification, prepare scratch.
set -e
cd "$(dirname "$0")"
mkdir -p out evidence
for f in spec/*.tla; do
  case "$f" in *_TTrace_*) continue;; esac
  (cd spec && java -cp /opt/veriftools/tla/tla2tools.jar:/opt/veriftools/tla/CommunityModules-deps.jar tla2sany.SANY "$(basename "$f")" > ../out/sany.log 2>&1) || { cat out/sany.log; echo "SANY failed on $f"; exit 1; }
done
PYTHONHASHSEED=0 /venv/bin/python -c "
import sys; sys.path.insert(0, '.')
from harness import run; run.setup_registry(); from harness.world import warm; warm(); print('harness ok')"
echo "setup ok"
