----------------------------- MODULE BatchTrace -----------------------------
(* Code -> model conformance for batch construction: every (input, batches) pair observed on the
   real submit-jobs (first round, one group) must be what the specification's closed form of
   _submit_batches/_make_batch computes for that input.  Batching.tla establishes (invariant
   ClosedFormAgrees, all inputs N <= 3) that the closed form equals the step-wise algorithm. *)
EXTENDS Naturals, Sequences, FiniteSets, TLC, Json, IOUtils, BatchingOps

Obs == JsonDeserialize(IOEnv.TRACE_FILE)
ASSUME TLCSet(1, 0)
ToSetB(s) == {s[k] : k \in 1..Len(s)}

\* one whole _submit_batches call for the group
RECURSIVE Round(_, _, _, _, _)
Round(P, avail, nb, maxnodes, acc) ==
  IF nb >= maxnodes \/ avail = <<>> THEN acc
  ELSE LET r == MakeBatch(P, avail) IN
       Round(P, r.rest, IF r.batch # <<>> THEN nb + 1 ELSE nb, maxnodes, IF r.batch # <<>> THEN Append(acc, r.batch) ELSE acc)

Expected(o) ==
  LET n == Len(o.rem)
      P == [rem |-> [j \in 1..n |-> ToSetB(o.rem[j])], est |-> [j \in 1..n |-> o.est[j]], tb |-> o.tb, tryadd |-> o.tryadd,
            cap |-> o.cap, size |-> o.size, repaired |-> o.repaired]
      avail == IF o.tb THEN SortByEst([k \in 1..n |-> k], P.est) ELSE [k \in 1..n |-> k]
  IN Round(P, avail, 0, o.maxnodes, <<>>)

VARIABLES i, agree
Init == i \in 1..Len(Obs) /\ agree = (Expected(Obs[i]) = Obs[i].batches)
Next == UNCHANGED <<i, agree>>
Spec == Init /\ [][Next]_<<i, agree>>
Report == /\ TLCSet(1, TLCGet(1) + 1)
          /\ (~agree => PrintT(<<"DISAGREE", ToJson([id |-> Obs[i].id, expected |-> Expected(Obs[i]), observed |-> Obs[i].batches])>>))
AllSeen == TLCGet(1) = Len(Obs)
=============================================================================
