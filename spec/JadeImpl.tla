------------------------------ MODULE JadeImpl ------------------------------
(***************************************************************************)
(* Layer (I): the distributed submission protocol of JADE, shaped like the *)
(* implementation.  One action = one *visible operation* of a process      *)
(* (a cluster-lock critical section, the collection of one node file, one  *)
(* external command, one poll of a node's job queue) or one move of the    *)
(* environment (a batch starts, a job process exits, the user runs the     *)
(* documented recovery).  Every action emits the observable events the     *)
(* real code produces there and feeds them to JadeMonitor (m), so TLC      *)
(* checks the *same* property definitions on every reachable state.        *)
(*                                                                         *)
(* Code map (jade/...):                                                    *)
(*   Promote/Refused      cli/try_submit_jobs.py, jobs/cluster.py          *)
(*                        Cluster._deserialize/_promote_to_submitter       *)
(*   Poll                 hpc/hpc_submitter.py HpcSubmitter.run ->         *)
(*                        JobQueue.process_queue -> AsyncHpcSubmitter      *)
(*   Glob/Move/CancelPass HpcSubmitter._update_completed_jobs,             *)
(*                        ResultsAggregator._process_results/_move_results *)
(*   MarkerTouch/Remove   HpcSubmitter.run (submitter.lock)                *)
(*   NextGroup/SubmitBatch HpcSubmitter._submit_batches/_make_batch        *)
(*                        (closed form: BatchingOps.MakeBatch)             *)
(*   Persist              Cluster._update_job_status                       *)
(*   CheckComplete        HpcSubmitter._is_complete                        *)
(*   Summary/Teardown/MarkComplete JobSubmitter._handle_completion (C16:   *)
(*                        teardown command between summary and flag)       *)
(*   NodeSetup/NodeTeardown jobs/job_runner.py JobRunner.run_jobs          *)
(*   Demote               Cluster._demote_from_submitter                   *)
(*   NodeInit/NodePoll    jobs/job_queue.py JobQueue.run/_check_completions*)
(*                        /process_queue, jobs/async_cli_command.py        *)
(***************************************************************************)
EXTENDS JadeMonitor, BatchingOps, Json

CONSTANTS Scns,        \* set of scenario records (same shape as the traces' scn)
          MaxB,        \* batch numbers 1..MaxB
          MaxUser,     \* how many times the user runs the documented recovery
          Monitor,     \* FALSE: m is frozen (liveness configurations)
          FaultKinds,  \* subset of {"kill", "nodekill", "sbatch", "squeue"}: which injected faults are explored
          MaxFaults,   \* at most this many injected faults per behaviour
          UserCancels, \* TRUE: the user may run cancel-jobs once, at any moment
          EagerUser,   \* TRUE: the user runs try-submit-jobs on the login node at any moment (not only when all is quiet)
          ResubFlags,  \* flag records [failed, missing, successful] with which the user may run resubmit-jobs on the
                       \* completed submission ({} = never)
          MaxResub,    \* ... at most this many times (each on the then completed submission)
          Log,         \* TRUE: keep path/elog (cover and simulation configurations; hidden by VIEW)
          Fixed        \* set of findings repaired in the modelled tree, e.g. {"F1"}; the pinned defects stay expressible

B == 1..MaxB
Repaired == "F1" \in Fixed
LOGIN == 0
RunSlot(b) == b
TrySlot(b) == MaxB + b
CSLOT == 2 * MaxB + 1           \* the user's cancel-jobs process (on the login host)
CTRY == 2 * MaxB + 2            \* ... and the try-submit-jobs it runs at its end
Slots == 0..(2 * MaxB + 2)

VARIABLES
  S,                \* the scenario (chosen in Init, never changes)
  cfg, js,          \* cluster_config.json (+version file), job_status.json (+version file)
  marker,           \* submitter.lock exists
  bfile,            \* config_batch_N.json: [B -> [jobs, hb] or NoFile]
  hs,               \* HPC ground truth: [B -> "none"|"pending"|"running"|"ended"|"failed"]
  nodeFile,         \* results/results_batch_N.csv: [B -> Seq(row)]   (<<>> = file absent)
  processed,        \* processed_results.csv: Seq(row)
  jp,               \* job processes: [job -> "none"|"running"|"exited"]
  procs,            \* [Slots -> process record]
  npid, nuser, ended,
  nfault,           \* injected faults so far
  ncancel,          \* cancel-jobs commands issued by the user (0 or 1)
  nresub,           \* resubmit-jobs commands issued by the user (0 .. MaxResub)
  stuck,            \* node result files whose lock marker was left behind by a runner killed inside its critical section
  m,                \* the monitor
  path, elog        \* history (only when Log): action labels taken, events emitted

vars == <<S, cfg, js, marker, bfile, hs, nodeFile, processed, jp, procs, npid, nuser, ended, nfault, ncancel, nresub, stuck, m, path, elog>>
implvars == <<S, cfg, js, marker, bfile, hs, nodeFile, processed, jp, procs, nuser, ended, nfault, ncancel, nresub, stuck>>

J == JobsOf(S)
NoFile == [jobs |-> <<>>, hb |-> <<>>]
SeqOf(set) == SelectSeq(S.jobs, LAMBDA j : j \in set)        \* a set of jobs in listing order
NodeHost(b) == "node" \o ToString(b)
SlotHost(s) == IF s = LOGIN \/ s > 2 * MaxB THEN "login" ELSE IF s <= MaxB THEN NodeHost(s) ELSE NodeHost(s - MaxB)

Idle == [kind |-> "none", pc |-> "idle", pid |-> 0, b |-> 0,
         lcfg |-> <<>>, wcfg |-> <<>>, ljs |-> <<>>, act |-> {}, todo |-> {}, got |-> <<>>, pending |-> <<>>,
         newly |-> {}, canc |-> <<>>, gi |-> 0, avail |-> <<>>, subm |-> <<>>, blkd |-> {}, lbidx |-> 0,
         done |-> FALSE, exc |-> "", rc |-> 0, fl |-> [failed |-> TRUE, missing |-> TRUE, successful |-> FALSE], rg |-> FALSE,
         queue |-> <<>>, outst |-> <<>>, nrem |-> <<>>, depth |-> 0]

RowOk(j, b) == <<j, ToString(S.rc[j]), "finished", "0.0", "0.0", ToString(b)>>
RowCanceled(j, id) == <<j, "1", "canceled", "0.0", "0.0", IF id = "None" THEN "" ELSE id>>
RowNames(rs) == {rs[k][1] : k \in 1..Len(rs)}
RECURSIVE CatFiles(_)
CatFiles(bs) == IF bs = {} THEN <<>> ELSE LET b == CHOOSE x \in bs : \A y \in bs : x <= y IN nodeFile[b] \o CatFiles(bs \ {b})
NamesOnDisk(nf, pr) == RowNames(pr) \cup UNION {RowNames(nf[b]) : b \in B}
Active(h) == Cardinality({b \in B : h[b] \in {"pending", "running"}})

\* ---------------------------------------------------------------- events
SortedIds(ids) == LET RECURSIVE L(_) L(bs) == IF bs = {} THEN <<>> ELSE
                        LET b == CHOOSE x \in bs : \A y \in bs : x <= y IN <<b>> \o L(bs \ {b})
                  IN L(ids)

Feed(lbl, evs) == /\ (IF Monitor THEN m' = MonSteps(S, m, evs) ELSE m' = m)
                  /\ (IF Log THEN path' = Append(path, lbl) /\ elog' = elog \o evs ELSE UNCHANGED <<path, elog>>)

EvStatus(pid, c, s, mk, nf, pr) ==
  [e |-> "status", pid |-> pid, sub |-> c.sub, njobs |-> Cardinality(J), nsub |-> c.nsub, ndone |-> c.ndone,
   complete |-> c.complete, canceled |-> c.canceled, cver |-> c.ver, cverf |-> c.ver, jver |-> s.ver, jverf |-> s.ver,
   st |-> s.st, rem |-> [j \in J |-> SeqOf(s.rem[j])], ids |-> SortedIds(s.ids), idb |-> SortedIds(s.ids), bidx |-> s.bidx,
   marker |-> mk, rows |-> SeqOf(NamesOnDisk(nf, pr))]
EvRows(nf, pr) ==
  [e |-> "rows", proc |-> pr, ok |-> TRUE,
   node |-> LET RECURSIVE L(_) L(bs) == IF bs = {} THEN <<>> ELSE
                   LET b == CHOOSE x \in bs : \A y \in bs : x <= y IN <<<<b, nf[b]>>>> \o L(bs \ {b})
            IN L({b \in B : nf[b] # <<>>})]
EvProc(pid, k, nested, b) == [e |-> "proc", pid |-> pid, k |-> k, nested |-> nested, b |-> b,
                              fl |-> [failed |-> TRUE, missing |-> TRUE, successful |-> FALSE]]
EvExit(pid, k, code, exc) == [e |-> "exit", pid |-> pid, k |-> k, code |-> code, exc |-> exc, clock |-> FALSE]
EvPromote(pid, host, ok, before, after, create) ==
  [e |-> "promote", pid |-> pid, host |-> host, ok |-> ok, exc |-> "", before |-> before, after |-> after, create |-> create]

\* a lifecycle command runs (C16): which in {"setup", "teardown", "nsetup", "nteardown"}; b = -1 for the submission-level ones
EvHook(which, pid, b, grp, nf, pr) ==
  [e |-> "hook", which |-> which, b |-> b, envok |-> TRUE, grp |-> grp, rows |-> SeqOf(NamesOnDisk(nf, pr)), live |-> 0,
   pid |-> pid, rc |-> 0]

\* ---------------------------------------------------------------- initial state: right after Cluster.create in submit-jobs
InitCfg(host) == [sub |-> host, nsub |-> 0, ndone |-> 0, complete |-> FALSE, canceled |-> FALSE, ver |-> 1]
InitJs(Sc) == [st |-> [j \in ToSet(Sc.jobs) |-> 0], rem |-> [j \in ToSet(Sc.jobs) |-> ToSet(Sc.blk[j])],
               ids |-> {}, bidx |-> 1, ver |-> 1]

Init ==
  /\ S \in Scns
  /\ cfg = InitCfg("login") /\ js = InitJs(S)
  /\ marker = FALSE
  /\ bfile = [b \in B |-> NoFile]
  /\ hs = [b \in B |-> "none"]
  /\ nodeFile = [b \in B |-> <<>>]
  /\ processed = <<>>
  /\ jp = [j \in ToSet(S.jobs) |-> "none"]
  /\ procs = [s \in Slots |-> IF s = LOGIN
                THEN [Idle EXCEPT !.kind = "submit-jobs", !.pc = "poll", !.pid = 1,
                                  !.lcfg = InitCfg("login"), !.wcfg = InitCfg("login"), !.ljs = InitJs(S), !.lbidx = 1]
                ELSE Idle]
  /\ npid = 1 /\ nuser = 0 /\ ended = FALSE /\ nfault = 0 /\ ncancel = 0 /\ nresub = 0 /\ stuck = {}
  /\ m = IF Monitor
           THEN MonSteps(S, MonInit(S),
                  << EvProc(1, "submit-jobs", FALSE, -1),
                     [e |-> "status", pid |-> 1, sub |-> "login", njobs |-> Len(S.jobs), nsub |-> 0, ndone |-> 0,
                      complete |-> FALSE, canceled |-> FALSE, cver |-> 1, cverf |-> 1, jver |-> 1, jverf |-> 1,
                      st |-> [j \in ToSet(S.jobs) |-> 0], rem |-> [j \in ToSet(S.jobs) |-> S.blk[j]], ids |-> <<>>, idb |-> <<>>,
                      bidx |-> 1, marker |-> FALSE, rows |-> <<>>],
                     EvPromote(1, "login", TRUE, "", "login", TRUE),
                     [e |-> "rows", proc |-> <<>>, node |-> <<>>, ok |-> TRUE] >>
                  \o (IF S.hooks.setup     \* submit_jobs of a new submission: the setup command, before anything is handed over
                        THEN <<[e |-> "hook", which |-> "setup", b |-> -1, envok |-> TRUE, grp |-> "", rows |-> <<>>, live |-> 0,
                                pid |-> 1, rc |-> 0]>>
                        ELSE <<>>))
           ELSE MonInit(S)
  /\ path = <<>> /\ elog = <<>>

CanFault(k) == k \in FaultKinds /\ nfault < MaxFaults /\ ~ended
P(s) == procs[s]
Set(s, rec) == procs' = [procs EXCEPT ![s] = rec]
IsSubmitterKind(k) == k \in {"submit-jobs", "try-submit-jobs", "resubmit-jobs"}
Label(s) == P(s).kind

\* ---------------------------------------------------------------- R1 promotion (one cluster-lock section)
\* a submitter-type process ends right after its last visible operation (there is no park point before the exit);
\* a node's nested try-submit-jobs lets its runner go on (NodeEnd)
Gone(s, ps) == IF s = CTRY THEN [ps EXCEPT ![s] = Idle, ![CSLOT].pc = "cend", ![CSLOT].rc = IF ps[s].exc # "" THEN 1 ELSE ps[s].rc]
               ELSE IF s > MaxB /\ s <= 2 * MaxB THEN [ps EXCEPT ![s] = Idle, ![RunSlot(s - MaxB)].pc = "nend"]
               ELSE [ps EXCEPT ![s] = Idle]

Promote(s) ==
  /\ P(s).pc = "promote"
  /\ LET host == SlotHost(s) IN
     IF cfg.sub # ""
       THEN /\ procs' = Gone(s, procs)
            /\ Feed(<<"Promote", s, 0>>, <<EvPromote(P(s).pid, host, FALSE, cfg.sub, cfg.sub, FALSE),
                                          EvExit(P(s).pid, P(s).kind, 0, "")>>)
            /\ UNCHANGED <<cfg>>
       ELSE LET c1 == [cfg EXCEPT !.sub = host, !.ver = @ + 1] IN
            /\ cfg' = c1
            /\ Set(s, [P(s) EXCEPT !.pc = IF cfg.complete THEN "demote" ELSE "poll",
                                   !.lcfg = c1, !.wcfg = c1, !.ljs = js, !.lbidx = js.bidx, !.act = js.ids])
            /\ Feed(<<"Promote", s, 0>>, <<EvStatus(P(s).pid, c1, js, marker, nodeFile, processed),
                      EvPromote(P(s).pid, host, TRUE, "", host, FALSE)>>)
  /\ UNCHANGED <<S, js, marker, bfile, hs, nodeFile, processed, jp, npid, nuser, ended, nfault, ncancel, nresub, stuck>>

\* ---------------------------------------------------------------- R3 poll the scheduler once
Poll(s) ==
  /\ P(s).pc = "poll"
  /\ \/ /\ IF P(s).ljs.ids = {}
            THEN Set(s, [P(s) EXCEPT !.pc = "glob", !.act = {}]) /\ Feed(<<"Poll", s, 0>>, <<>>)
            ELSE /\ Set(s, [P(s) EXCEPT !.pc = "glob", !.act = {b \in P(s).ljs.ids : hs[b] \in {"pending", "running"}}])
                 /\ Feed(<<"Poll", s, Cardinality(P(s).ljs.ids)>>, <<[e |-> "squeue", ok |-> TRUE, pid |-> P(s).pid]>>)
        /\ UNCHANGED nfault
     \/ \* the status query fails on all 7 attempts: ExecutionError before anything else was touched -> demote
        /\ CanFault("squeue") /\ P(s).ljs.ids # {}
        /\ nfault' = nfault + 1
        /\ Set(s, [P(s) EXCEPT !.pc = "demote", !.exc = "ExecutionError"])
        /\ Feed(<<"PollFail", s, 7>>, [k \in 1..7 |-> [e |-> "squeue", ok |-> FALSE, pid |-> P(s).pid]])
  /\ UNCHANGED <<S, cfg, js, marker, bfile, hs, nodeFile, processed, jp, npid, nuser, ended, ncancel, nresub, stuck>>

\* ---------------------------------------------------------------- R4 collection
\* process_results(): take the processed-results lock and glob the node files.  When the last file has been moved
\* the call returns: the lock is released and the rows it returns are what this round "newly completed".
Glob(s) ==
  /\ P(s).pc = "glob"
  /\ LET todo == {b \in B : nodeFile[b] # <<>>} IN
     IF todo = {}
       THEN /\ Set(s, [P(s) EXCEPT !.pc = "cancel", !.todo = {}, !.got = <<>>])
            /\ Feed(<<"Glob", s, 0>>, <<EvRows(nodeFile, processed), [e |-> "collected", rows |-> <<>>]>>)
       ELSE /\ Set(s, [P(s) EXCEPT !.pc = "move", !.todo = todo, !.got = <<>>])
            /\ Feed(<<"Glob", s, 0>>, <<>>)
  /\ UNCHANGED <<S, cfg, js, marker, bfile, hs, nodeFile, processed, jp, npid, nuser, ended, nfault, ncancel, nresub, stuck>>

\* the marker of a killed runner is never removed (no lock library breaks a marker of another host): the collection waits
\* for the lock, times out, and the round ends with that exception before it has touched anything else
MoveBlocked(s, b) ==
  /\ P(s).pc = "move" /\ b \in P(s).todo /\ b \in stuck
  /\ Set(s, [P(s) EXCEPT !.pc = "demote", !.exc = "Timeout"])
  /\ Feed(<<"MoveBlocked", s, b>>, <<>>)
  /\ UNCHANGED <<S, cfg, js, marker, bfile, hs, nodeFile, processed, jp, npid, nuser, ended, nfault, ncancel, nresub, stuck>>

Move(s, b) ==
  /\ P(s).pc = "move" /\ b \in P(s).todo /\ b \notin stuck
  /\ LET pr == processed \o nodeFile[b]
         nf == [nodeFile EXCEPT ![b] = <<>>]
         got1 == P(s).got \o nodeFile[b]
         last == P(s).todo = {b} IN
     /\ processed' = pr /\ nodeFile' = nf
     /\ Set(s, [P(s) EXCEPT !.todo = @ \ {b}, !.got = got1, !.pc = IF last THEN "cancel" ELSE "move"])
     /\ Feed(<<"Move", s, b>>, <<EvRows(nf, pr)>> \o (IF last THEN <<EvRows(nf, pr), [e |-> "collected", rows |-> got1]>> ELSE <<>>))
  /\ UNCHANGED <<S, cfg, js, marker, bfile, hs, jp, npid, nuser, ended, nfault, ncancel, nresub, stuck>>

\* one iteration of the `while need_to_rerun` loop body after process_results() returned
CancelPass(s) ==
  /\ P(s).pc = "cancel"
  /\ LET p == P(s)
         results == p.got \o p.pending
         names == RowNames(results)
         failed == {results[k][1] : k \in {x \in 1..Len(results) : RFailed(results[x])}}
         newly == p.newly \cup names
         cand == {j \in J : p.ljs.st[j] = 0 /\ p.ljs.rem[j] # {}}
         tocancel == {j \in cand : S.flag[j] /\ p.ljs.rem[j] \cap failed # {}}
         cseq == SeqOf(tocancel)
         crows == [k \in 1..Len(cseq) |-> RowCanceled(cseq[k], "None")]
         pr == processed \o crows
         ljs1 == [p.ljs EXCEPT !.st = [j \in J |-> IF j \in tocancel THEN 2 ELSE @[j]],
                               !.rem = [j \in J |-> IF j \in tocancel THEN {}
                                                    ELSE IF j \in cand THEN @[j] \ newly ELSE @[j]]]
         RECURSIVE Zip(_)
         Zip(k) == IF k > Len(crows) THEN <<>>
                   ELSE <<[e |-> "append", row |-> crows[k]], EvRows(nodeFile, processed \o SubSeq(crows, 1, k)),
                          [e |-> "appended", row |-> crows[k]]>> \o Zip(k + 1)
     IN /\ processed' = pr
        /\ Set(s, [p EXCEPT !.ljs = ljs1, !.newly = newly, !.canc = @ \o cseq, !.pending = crows, !.got = <<>>,
                            !.pc = IF crows # <<>> THEN "glob" ELSE "marker"])
        /\ Feed(<<"CancelPass", s, Len(crows)>>, Zip(1))
  /\ UNCHANGED <<S, cfg, js, marker, bfile, hs, nodeFile, jp, npid, nuser, ended, nfault, ncancel, nresub, stuck>>

\* ---------------------------------------------------------------- R5 submitter.lock
MarkerTouch(s) ==
  /\ P(s).pc = "marker"
  /\ IF marker
       THEN Set(s, [P(s) EXCEPT !.pc = "demote", !.exc = "Exception"]) /\ UNCHANGED marker
       ELSE marker' = TRUE /\ Set(s, [P(s) EXCEPT !.pc = "group", !.gi = 1, !.subm = <<>>, !.blkd = {}])
  /\ Feed(<<"MarkerTouch", s, 0>>, <<>>)
  /\ UNCHANGED <<S, cfg, js, bfile, hs, nodeFile, processed, jp, npid, nuser, ended, nfault, ncancel, nresub, stuck>>

\* ---------------------------------------------------------------- R6 batches
QueueFull(p) == S.maxnodes > 0 /\ Cardinality(p.act) >= S.maxnodes
GroupRec(gi) == S.groups[S.gorder[gi]]
AvailFor(p, gi) ==
  LET g == S.gorder[gi]
      lst == SelectSeq(S.jobs, LAMBDA j : p.ljs.st[j] = 0 /\ S.grp[j] = g)
  IN IF GroupRec(gi).tb THEN SortByEst(lst, S.est) ELSE lst

\* `for group in submission_groups: if not queue.is_full(): self._submit_batches(...)`
NextGroup(s) ==
  /\ P(s).pc = "group"
  /\ LET p == P(s) IN
     IF p.gi > Len(S.gorder)
       THEN Set(s, [p EXCEPT !.pc = "persist"])
       ELSE IF "F2" \in Fixed /\ p.lcfg.canceled
              THEN Set(s, [p EXCEPT !.pc = "persist"])        \* canceled submission: only collect and complete
       ELSE IF QueueFull(p)
              THEN Set(s, [p EXCEPT !.gi = @ + 1])
              ELSE Set(s, [p EXCEPT !.pc = "batch", !.avail = AvailFor(p, p.gi)])
  /\ Feed(<<"NextGroup", s, 0>>, <<>>)
  /\ UNCHANGED <<S, cfg, js, marker, bfile, hs, nodeFile, processed, jp, npid, nuser, ended, nfault, ncancel, nresub, stuck>>

\* one iteration of `while not queue.is_full() and available_jobs:` -- _make_batch, files, sbatch
SubmitBatchX(s, fail) ==
  /\ P(s).pc = "batch"
  /\ LET p == P(s)
         g == GroupRec(p.gi)
         PP == [rem |-> p.ljs.rem, est |-> S.est, tb |-> g.tb, tryadd |-> g.tryadd, cap |-> g.cap, size |-> g.size,
                repaired |-> Repaired]
     IN IF QueueFull(p) \/ p.avail = <<>>
          THEN /\ Set(s, [p EXCEPT !.pc = "group", !.gi = @ + 1, !.avail = <<>>])
               /\ Feed(<<"SubmitBatch", s, 0>>, <<>>)
               /\ UNCHANGED <<bfile, hs, nfault, ncancel, nresub, stuck>>
          ELSE LET r == MakeBatch(PP, p.avail)
                   b == p.lbidx
                   hb == [k \in 1..Len(r.batch) |-> SeqOf(p.ljs.rem[r.batch[k]])]
                   rowsNow == SeqOf(NamesOnDisk(nodeFile, processed))
               IN IF r.batch = <<>>
                    THEN /\ Set(s, [p EXCEPT !.avail = r.rest, !.blkd = @ \cup r.blocked])
                         /\ Feed(<<"SubmitBatch", s, 0>>, <<>>)
                         /\ UNCHANGED <<bfile, hs, nfault, ncancel, nresub, stuck>>
                    ELSE /\ b \in B          \* the model is bounded to MaxB batches
                         /\ bfile' = [bfile EXCEPT ![b] = [jobs |-> r.batch, hb |-> hb]]
                         \* sbatch fails on all 7 attempts: the batch is not outstanding, its jobs are still recorded as
                         \* submitted (AsyncHpcSubmitter.run returns ERROR; "TODO: cancel or fail all jobs in the batch")
                         /\ hs' = [hs EXCEPT ![b] = IF fail THEN "failed" ELSE "pending"]
                         /\ nfault' = IF fail THEN nfault + 1 ELSE nfault
                         /\ Set(s, [p EXCEPT !.avail = r.rest, !.blkd = @ \cup r.blocked, !.subm = @ \o r.batch,
                                             !.lbidx = b + 1, !.act = IF fail THEN @ ELSE @ \cup {b}])
                         /\ LET cb == [e |-> "cfgbatch", b |-> b, rewrite |-> (bfile[b] # NoFile), jobs |-> r.batch, hb |-> hb,
                                       rows |-> rowsNow]
                                sbe == [e |-> "sbatch", ok |-> ~fail, b |-> b, active |-> IF fail THEN Active(hs) ELSE Active(hs) + 1,
                                        jobs |-> r.batch, hb |-> hb, rows |-> rowsNow, opts |-> g.opts, run |-> g.run]
                            IN Feed(<<IF fail THEN "SubmitBatchFail" ELSE "SubmitBatch", s, IF fail THEN b ELSE 1>>,
                                    IF fail THEN <<cb, sbe, sbe, sbe, sbe, sbe, sbe, sbe>> ELSE <<cb, sbe>>)
  /\ UNCHANGED <<S, cfg, js, marker, nodeFile, processed, jp, npid, nuser, ended, ncancel, nresub, stuck>>


SubmitBatch(s) == SubmitBatchX(s, FALSE)
SubmitBatchFail(s) == CanFault("sbatch") /\ SubmitBatchX(s, TRUE)

\* ---------------------------------------------------------------- R7 persist (Cluster._update_job_status under the lock)
Persist(s) ==
  /\ P(s).pc = "persist"
  /\ LET p == P(s)
         subset == ToSet(p.subm)
         need == p.newly # {} \/ p.subm # <<>> \/ p.blkd # {} \/ p.ljs.ids # p.act
         \* the assertions of _update_job_status
         okA == /\ \A k \in 1..Len(p.subm) : p.ljs.st[p.subm[k]] # 1 /\ \A k2 \in 1..Len(p.subm) : (k2 # k => p.subm[k2] # p.subm[k])
                /\ \A j \in p.blkd : p.ljs.st[j] = 0 /\ j \notin subset
                /\ \A j \in p.newly : j \notin subset \cup p.blkd
         st1 == [j \in J |-> IF j \in p.newly THEN 2 ELSE IF j \in subset THEN 1 ELSE p.ljs.st[j]]
         ljs1 == [p.ljs EXCEPT !.st = st1, !.rem = [j \in J |-> IF st1[j] >= 1 THEN {} ELSE @[j]],
                               !.ids = p.act, !.bidx = p.lbidx, !.ver = @ + 1]
         lcfg1 == [p.lcfg EXCEPT !.nsub = @ + Len(p.subm) + Len(p.canc), !.ndone = @ + Cardinality(p.newly)]
         lcfg2 == IF lcfg1 # p.wcfg THEN [lcfg1 EXCEPT !.ver = @ + 1] ELSE lcfg1
     IN IF ~need
          THEN /\ Set(s, [p EXCEPT !.pc = "check"]) /\ Feed(<<"Persist", s, IF need THEN 1 ELSE 0>>, <<>>) /\ UNCHANGED <<cfg, js>>
          ELSE IF ~okA
            THEN \* an assertion fails under the lock, before anything is written
                 /\ Set(s, [p EXCEPT !.pc = "demote", !.exc = "AssertionError"]) /\ Feed(<<"Persist", s, IF need THEN 1 ELSE 0>>, <<>>) /\ UNCHANGED <<cfg, js>>
            ELSE /\ cfg' = lcfg2 /\ js' = ljs1
                 /\ Set(s, [p EXCEPT !.pc = "check", !.lcfg = lcfg2, !.wcfg = lcfg2, !.ljs = ljs1])
                 /\ Feed(<<"Persist", s, IF need THEN 1 ELSE 0>>, <<EvStatus(p.pid, lcfg2, ljs1, marker, nodeFile, processed)>>)
  /\ UNCHANGED <<S, marker, bfile, hs, nodeFile, processed, jp, npid, nuser, ended, nfault, ncancel, nresub, stuck>>

\* ---------------------------------------------------------------- R8/R9
CheckComplete(s) ==
  /\ P(s).pc = "check"
  /\ LET p == P(s)
         allDone == \A j \in J : p.ljs.st[j] = 2
         force == ~allDone /\ p.ljs.ids = {}
     IN Set(s, [p EXCEPT !.pc = "unmark", !.done = allDone \/ force])
  /\ Feed(<<"CheckComplete", s, 0>>, <<>>)
  /\ UNCHANGED <<S, cfg, js, marker, bfile, hs, nodeFile, processed, jp, npid, nuser, ended, nfault, ncancel, nresub, stuck>>

MarkerRemove(s) ==
  /\ P(s).pc = "unmark"
  /\ marker' = FALSE
  /\ Set(s, [P(s) EXCEPT !.pc = IF P(s).done THEN "summary" ELSE "demote"])
  /\ Feed(<<"MarkerRemove", s, 0>>, <<>>)
  /\ UNCHANGED <<S, cfg, js, bfile, hs, nodeFile, processed, jp, npid, nuser, ended, nfault, ncancel, nresub, stuck>>

\* ---------------------------------------------------------------- R10 completion
ResRow(r) == <<r[1], IF r[2] = "0" THEN 0 ELSE 1, r[3], r[4], r[5], r[6]>>
Summary(s) ==
  /\ P(s).pc = "summary"
  /\ LET res == [k \in 1..Len(processed) |-> ResRow(processed[k])]
         names == RowNames(processed)
         missing == IF Len(processed) # Cardinality(J) THEN SeqOf(J \ names) ELSE <<>>
         nS == Cardinality({k \in 1..Len(res) : Class(res[k]) = "successful"})
         nF == Cardinality({k \in 1..Len(res) : Class(res[k]) = "failed"})
         nC == Cardinality({k \in 1..Len(res) : Class(res[k]) = "canceled"})
     IN Feed(<<"Summary", s, 0>>, <<EvRows(nodeFile, processed),
               [e |-> "summary", res |-> res, missing |-> missing, tally |-> <<nS, nF, nC, Len(missing)>>]>>)
  \* _handle_completion returns Status.ERROR (exit code 1) when the number of results differs from the number of jobs
  /\ Set(s, [P(s) EXCEPT !.pc = IF S.hooks.teardown THEN "teardown" ELSE "markcomplete",
                         !.rc = IF Len(processed) # Cardinality(J) THEN 1 ELSE 0])
  /\ UNCHANGED <<S, cfg, js, marker, bfile, hs, nodeFile, processed, jp, npid, nuser, ended, nfault, ncancel, nresub, stuck>>

\* _handle_completion: the teardown command, after the results summary and before the completion flag
Teardown(s) ==
  /\ P(s).pc = "teardown"
  /\ Set(s, [P(s) EXCEPT !.pc = "markcomplete"])
  /\ Feed(<<"Teardown", s, 0>>, <<EvHook("teardown", P(s).pid, -1, "", nodeFile, processed)>>)
  /\ UNCHANGED <<S, cfg, js, marker, bfile, hs, nodeFile, processed, jp, npid, nuser, ended, nfault, ncancel, nresub, stuck>>

MarkComplete(s) ==
  /\ P(s).pc = "markcomplete"
  /\ LET p == P(s) IN
     IF p.lcfg.complete
       THEN Set(s, [p EXCEPT !.pc = "demote", !.exc = "AssertionError"]) /\ Feed(<<"MarkComplete", s, 0>>, <<>>) /\ UNCHANGED cfg
       ELSE LET c1 == [p.lcfg EXCEPT !.complete = TRUE, !.ver = @ + 1] IN
            /\ cfg' = c1
            /\ Set(s, [p EXCEPT !.pc = "demote", !.lcfg = c1, !.wcfg = c1])
            /\ Feed(<<"MarkComplete", s, 0>>, <<EvStatus(p.pid, c1, js, marker, nodeFile, processed)>>)
  /\ UNCHANGED <<S, js, marker, bfile, hs, nodeFile, processed, jp, npid, nuser, ended, nfault, ncancel, nresub, stuck>>

\* ---------------------------------------------------------------- R11 demotion (the `finally` of every path)
Demote(s) ==
  /\ P(s).pc = "demote"
  /\ LET p == P(s)
         c1 == [p.lcfg EXCEPT !.sub = "", !.ver = @ + 1] IN
     /\ cfg' = c1
     /\ procs' = Gone(s, procs)
     /\ Feed(<<"Demote", s, 0>>, <<EvStatus(p.pid, c1, js, marker, nodeFile, processed),
                                   EvExit(p.pid, p.kind, IF p.exc # "" THEN 1 ELSE p.rc, p.exc)>>)
  /\ UNCHANGED <<S, js, marker, bfile, hs, nodeFile, processed, jp, npid, nuser, ended, nfault, ncancel, nresub, stuck>>

\* the runner's `jade try-submit-jobs` returned: run-jobs exits, the batch leaves the queue
NodeEnd(s) ==
  /\ s \in B /\ P(s).pc = "nend"
  /\ LET h1 == [hs EXCEPT ![s] = "ended"] IN
     /\ hs' = h1
     /\ Set(s, Idle)
     /\ Feed(<<"NodeEnd", s, 0>>, <<EvExit(P(s).pid, "run-jobs", 0, ""), [e |-> "hpc", what |-> "end", b |-> s, active |-> Active(h1)]>>)
  /\ UNCHANGED <<S, cfg, js, marker, bfile, nodeFile, processed, jp, npid, nuser, ended, nfault, ncancel, nresub, stuck>>

\* ---------------------------------------------------------------- the HPC and the nodes
StartBatch(b) ==
  /\ hs[b] = "pending"
  /\ LET h1 == [hs EXCEPT ![b] = "running"]
         jobs == bfile[b].jobs
         g == Grp(S, jobs[1])
         maxw == IF g.procs > 0 THEN g.procs ELSE S.cpus
     IN /\ hs' = h1
        /\ npid' = npid + 1
        /\ Set(RunSlot(b), [Idle EXCEPT !.kind = "run-jobs", !.pc = IF S.hooks.nsetup THEN "nsetup" ELSE "ninit", !.pid = npid + 1, !.b = b,
                                        !.depth = IF Len(jobs) < maxw THEN Len(jobs) ELSE maxw,
                                        !.nrem = [k \in 1..Len(jobs) |-> ToSet(bfile[b].hb[k])]])
        /\ Feed(<<"StartBatch", b, 0>>, <<[e |-> "hpc", what |-> "start", b |-> b, active |-> Active(h1)], EvProc(npid + 1, "run-jobs", FALSE, b)>>)
  /\ UNCHANGED <<S, cfg, js, marker, bfile, nodeFile, processed, jp, nuser, ended, nfault, ncancel, nresub, stuck>>

\* start queued jobs into free slots, in queue order, skipping blocked ones (JobQueue.submit / process_queue)
\* returns [queue, outst, started (sequence)]
RECURSIVE StartJobs(_, _, _, _, _, _)
StartJobs(queue, outst, nremF, depth, started, initial) ==
  \* initial = TRUE: JobQueue.submit loop (a job is started only if the queue is not full and it is not blocked;
  \* otherwise it is queued, and later jobs are still examined)
  LET idx == {k \in 1..Len(queue) : nremF[queue[k]] = {}}
  IN IF Len(outst) >= depth \/ idx = {} THEN [queue |-> queue, outst |-> outst, started |-> started]
     ELSE LET k == CHOOSE x \in idx : \A y \in idx : x <= y
              j == queue[k]
          IN StartJobs(SubSeq(queue, 1, k - 1) \o SubSeq(queue, k + 1, Len(queue)), Append(outst, j), nremF, depth,
                       Append(started, j), initial)

LaunchEvents(pid, b, started, outstBefore, rowsNow) ==
  [k \in 1..Len(started) |-> [e |-> "launch", job |-> started[k], b |-> b, rows |-> rowsNow, pid |-> pid,
                              live |-> outstBefore + k]]

\* JobRunner.run_jobs: the node setup command before any job of the batch, the node teardown command after all of them
NodeSetup(s) ==
  /\ s \in B /\ P(s).pc = "nsetup"
  /\ Set(s, [P(s) EXCEPT !.pc = "ninit"])
  /\ Feed(<<"NodeSetup", s, 0>>, <<EvHook("nsetup", P(s).pid, P(s).b, S.grp[bfile[P(s).b].jobs[1]], nodeFile, processed)>>)
  /\ UNCHANGED <<S, cfg, js, marker, bfile, hs, nodeFile, processed, jp, npid, nuser, ended, nfault, ncancel, nresub, stuck>>
NodeTeardown(s) ==
  /\ s \in B /\ P(s).pc = "nteardown"
  /\ Set(s, [P(s) EXCEPT !.pc = "ntry"])
  /\ Feed(<<"NodeTeardown", s, 0>>, <<EvHook("nteardown", P(s).pid, P(s).b, S.grp[bfile[P(s).b].jobs[1]], nodeFile, processed)>>)
  /\ UNCHANGED <<S, cfg, js, marker, bfile, hs, nodeFile, processed, jp, npid, nuser, ended, nfault, ncancel, nresub, stuck>>

NodeInit(s) ==
  /\ s \in B /\ P(s).pc = "ninit"
  /\ LET p == P(s)
         jobs == bfile[p.b].jobs
         nremF == [j \in ToSet(jobs) |-> p.nrem[CHOOSE k \in 1..Len(jobs) : jobs[k] = j]]
         r == StartJobs(jobs, <<>>, nremF, p.depth, <<>>, TRUE)
     IN /\ Set(s, [p EXCEPT !.pc = "nwait", !.queue = r.queue, !.outst = r.outst, !.nrem = nremF])
        /\ jp' = [j \in J |-> IF j \in ToSet(r.started) THEN "running" ELSE jp[j]]
        /\ Feed(<<"NodeInit", s, Len(r.started)>>, LaunchEvents(p.pid, p.b, r.started, 0, SeqOf(NamesOnDisk(nodeFile, processed))))
  /\ UNCHANGED <<S, cfg, js, marker, bfile, hs, nodeFile, processed, npid, nuser, ended, nfault, ncancel, nresub, stuck>>

JobExit(j) ==
  /\ j \in J /\ jp[j] = "running"
  /\ jp' = [jp EXCEPT ![j] = "exited"]
  /\ Feed(<<"JobExit", j, 0>>, <<[e |-> "jobexit", job |-> j, rc |-> S.rc[j]]>>)
  /\ UNCHANGED <<S, cfg, js, marker, bfile, hs, nodeFile, processed, procs, npid, nuser, ended, nfault, ncancel, nresub, stuck>>

\* JobQueue._check_completions as a fixpoint.  st = [outst, queue, nrem, failed, rows (appended, in order), fin (set)]
\* isDoneF(j): the job's process has exited, or the job was canceled by this queue
RECURSIVE CheckCompl(_, _, _)
CheckCompl(st, exitedSet, b) ==
  LET completed == SelectSeq(st.outst, LAMBDA j : j \in exitedSet \/ j \in st.canceled)
      newrows == [k \in 1..Len(SelectSeq(completed, LAMBDA j : j \notin st.canceled)) |->
                    RowOk(SelectSeq(completed, LAMBDA j : j \notin st.canceled)[k], b)]
      failed1 == st.failed \cup {j \in ToSet(completed) : j \in st.canceled \/ S.rc[j] # 0}
      outst1 == SelectSeq(st.outst, LAMBDA j : j \notin ToSet(completed))
      \* for name in completed (in order): scan the queue
      RECURSIVE PerName(_, _)
      PerName(k, acc) ==   \* acc = [queue, nrem, canceledNow (seq), outst]
        IF k > Len(completed) THEN acc
        ELSE LET name == completed[k]
                 tocancel == {x \in 1..Len(acc.queue) : acc.nrem[acc.queue[x]] # {} /\ S.flag[acc.queue[x]]
                                                        /\ acc.nrem[acc.queue[x]] \cap failed1 # {}}
                 cjobs == [x \in 1..Len(SelectSeq(acc.queue, LAMBDA j : \E y \in tocancel : acc.queue[y] = j)) |->
                             SelectSeq(acc.queue, LAMBDA j : \E y \in tocancel : acc.queue[y] = j)[x]]
                 cset == ToSet(cjobs)
                 nrem1 == [j \in DOMAIN acc.nrem |-> IF j \in cset THEN {}
                                                     ELSE IF j \in ToSet(acc.queue) /\ acc.nrem[j] # {} THEN acc.nrem[j] \ {name}
                                                     ELSE acc.nrem[j]]
             IN PerName(k + 1, [queue |-> SelectSeq(acc.queue, LAMBDA j : j \notin cset), nrem |-> nrem1,
                                canceledNow |-> acc.canceledNow \o cjobs, outst |-> acc.outst \o cjobs])
      r == PerName(1, [queue |-> st.queue, nrem |-> st.nrem, canceledNow |-> <<>>, outst |-> outst1])
      crow == [k \in 1..Len(r.canceledNow) |-> RowCanceled(r.canceledNow[k], ToString(b))]
      st1 == [outst |-> r.outst, queue |-> r.queue, nrem |-> r.nrem, failed |-> failed1,
              rows |-> st.rows \o newrows \o crow, canceled |-> st.canceled \cup ToSet(r.canceledNow),
              fin |-> st.fin \cup ToSet(completed)]
  IN IF r.canceledNow # <<>> THEN CheckCompl(st1, exitedSet, b) ELSE st1

NodePoll(s) ==
  /\ s \in B /\ P(s).pc = "nwait"
  /\ LET p == P(s)
         exitedSet == {j \in ToSet(p.outst) : jp[j] = "exited"}
     IN /\ exitedSet # {} \/ (p.outst = <<>> /\ p.queue # <<>>)
        /\ LET c == CheckCompl([outst |-> p.outst, queue |-> p.queue, nrem |-> p.nrem, failed |-> {}, rows |-> <<>>,
                                canceled |-> {}, fin |-> {}], exitedSet, p.b)
               nf == [nodeFile EXCEPT ![p.b] = @ \o c.rows]
               r == StartJobs(c.queue, c.outst, c.nrem, p.depth, <<>>, FALSE)
               RECURSIVE RowEvents(_, _)
               RowEvents(k, file) == IF k > Len(c.rows) THEN <<>>
                                     ELSE <<[e |-> "append", row |-> c.rows[k]],
                                            EvRows([nodeFile EXCEPT ![p.b] = file \o <<c.rows[k]>>], processed),
                                            [e |-> "appended", row |-> c.rows[k]]>>
                                          \o RowEvents(k + 1, file \o <<c.rows[k]>>)
           IN /\ nodeFile' = nf
              /\ jp' = [j \in J |-> IF j \in ToSet(r.started) THEN "running"
                                    ELSE IF j \in exitedSet THEN "none" ELSE jp[j]]
              /\ Set(s, [p EXCEPT !.queue = r.queue, !.outst = r.outst, !.nrem = c.nrem,
                                  !.pc = IF r.queue = <<>> /\ r.outst = <<>> THEN (IF S.hooks.nteardown THEN "nteardown" ELSE "ntry") ELSE "nwait"])
              /\ Feed(<<"NodePoll", s, Len(c.rows) + Len(r.started)>>, RowEvents(1, nodeFile[p.b])
                      \o LaunchEvents(p.pid, p.b, r.started, Len(c.outst), SeqOf(NamesOnDisk(nf, processed))))
  /\ UNCHANGED <<S, cfg, js, marker, bfile, hs, processed, npid, nuser, ended, nfault, ncancel, nresub, stuck>>

\* all jobs of the batch ended: the runner runs `jade try-submit-jobs` and waits for it
\* (with --no-distributed-submitter -- S.dist = FALSE -- run-jobs exits without a round of its own: cli/run_jobs.py
\* `if status == Status.GOOD and distributed_submitter`; the batch's rows wait in the node file until the user's next
\* try-submit-jobs, which is then the only thing that moves the submission forward)
NodeTry(s) ==
  /\ s \in B /\ P(s).pc = "ntry"
  /\ IF S.dist
       THEN /\ npid' = npid + 1
            /\ procs' = [procs EXCEPT ![s].pc = "nwaittry",
                                      ![TrySlot(s)] = [Idle EXCEPT !.kind = "try-submit-jobs", !.pc = "promote", !.pid = npid + 1, !.b = s]]
            /\ Feed(<<"NodeTry", s, 0>>, <<EvProc(npid + 1, "try-submit-jobs", TRUE, s)>>)
       ELSE /\ UNCHANGED npid
            /\ procs' = [procs EXCEPT ![s].pc = "nend"]
            /\ Feed(<<"NodeNoTry", s, 0>>, <<>>)
  /\ UNCHANGED <<S, cfg, js, marker, bfile, hs, nodeFile, processed, jp, nuser, ended, nfault, ncancel, nresub, stuck>>


\* ---------------------------------------------------------------- injected faults (FaultKinds, MaxFaults)
HoldsRole(s) == IsSubmitterKind(P(s).kind) /\ P(s).pc \notin {"promote", "idle", "exit"}

\* The real process is only ever parked at a *visible* operation (a lock, an external command): the silent steps of the
\* model (marker touch / removal, group iteration, an empty batch attempt, a poll or persist with nothing to do, a
\* cancel pass without appends) happen on the way to that park point.  So a kill falls right before a visible operation,
\* after the silent steps that precede it.
NextBatchOf(p) ==
  LET g == GroupRec(p.gi)
      PP == [rem |-> p.ljs.rem, est |-> S.est, tb |-> g.tb, tryadd |-> g.tryadd, cap |-> g.cap, size |-> g.size,
             repaired |-> Repaired]
  IN MakeBatch(PP, p.avail)
CancelPassAppends(p) ==
  LET results == p.got \o p.pending
      failed == {results[k][1] : k \in {x \in 1..Len(results) : RFailed(results[x])}}
  IN \E j \in J : p.ljs.st[j] = 0 /\ p.ljs.rem[j] # {} /\ S.flag[j] /\ p.ljs.rem[j] \cap failed # {}
SilentNext(s) ==
  LET p == P(s) IN
  \/ p.pc \in {"marker", "group", "unmark"}
  \/ (p.pc = "poll" /\ p.ljs.ids = {})
  \/ (p.pc = "batch" /\ (QueueFull(p) \/ p.avail = <<>> \/ NextBatchOf(p).batch = <<>>))
  \/ (p.pc = "persist" /\ ~(p.newly # {} \/ p.subm # <<>> \/ p.blkd # {} \/ p.ljs.ids # p.act))
  \/ (p.pc = "cancel" /\ ~CancelPassAppends(p))

\* SIGKILL of a submitter-type process at the park point of its next visible operation: it disappears; whatever it wrote
\* stays (submitter field, submitter.lock, batches handed to the HPC but not yet persisted -- and, when it is killed at its
\* sbatch call, the files of the batch it was about to hand over)
Kill(s) ==
  /\ CanFault("kill") /\ IsSubmitterKind(P(s).kind) /\ ~SilentNext(s)
  /\ nfault' = nfault + 1
  /\ procs' = Gone(s, procs)
  /\ LET p == P(s)
         atSbatch == p.pc = "batch" /\ p.lbidx \in B
         r == IF atSbatch THEN NextBatchOf(p) ELSE [batch |-> <<>>]
         b == p.lbidx
         hb == [k \in 1..Len(r.batch) |-> SeqOf(p.ljs.rem[r.batch[k]])]
     IN IF atSbatch
          THEN /\ bfile' = [bfile EXCEPT ![b] = [jobs |-> r.batch, hb |-> hb]]
               /\ Feed(<<"Kill", s, 0>>, <<[e |-> "cfgbatch", b |-> b, rewrite |-> (bfile[b] # NoFile), jobs |-> r.batch, hb |-> hb,
                                            rows |-> SeqOf(NamesOnDisk(nodeFile, processed))],
                                          [e |-> "kill", pid |-> p.pid]>>)
          ELSE /\ UNCHANGED bfile
               /\ Feed(<<"Kill", s, 0>>, <<[e |-> "kill", pid |-> p.pid]>>)
  /\ UNCHANGED <<S, cfg, js, marker, hs, nodeFile, processed, jp, npid, nuser, ended, ncancel, nresub, stuck>>

\* the node of a running batch disappears (killed, walltime): runner, its nested try-submit-jobs and its job processes die;
\* rows already appended stay
NodeKill(b) ==
  /\ CanFault("nodekill") /\ hs[b] = "running" /\ P(RunSlot(b)).kind = "run-jobs"
  /\ nfault' = nfault + 1
  /\ LET h1 == [hs EXCEPT ![b] = "killed"]
         tryAlive == P(TrySlot(b)).kind # "none"
         bj == ToSet(bfile[b].jobs)
         evs == <<[e |-> "nodekill", pid |-> P(RunSlot(b)).pid]>>
                \o (IF tryAlive THEN <<[e |-> IF HoldsRole(TrySlot(b)) THEN "kill" ELSE "nodekill", pid |-> P(TrySlot(b)).pid]>> ELSE <<>>)
                \o <<[e |-> "hpc", what |-> "kill", b |-> b, active |-> Active(h1)]>>
     IN /\ hs' = h1
        /\ procs' = [procs EXCEPT ![RunSlot(b)] = Idle, ![TrySlot(b)] = Idle]
        /\ jp' = [j \in J |-> IF j \in bj /\ jp[j] \in {"running", "exited"} THEN "none" ELSE jp[j]]
        /\ Feed(<<"NodeKill", b, 0>>, evs)
  /\ UNCHANGED <<S, cfg, js, marker, bfile, nodeFile, processed, npid, nuser, ended, ncancel, nresub, stuck>>


\* ... the same while the runner is inside ResultsAggregator._do_action_under_lock around a row append (the node file
\* exists already): the marker results_batch_N.csv.lock stays (known finding K1)
NodeKillLocked(b) ==
  /\ CanFault("nodekill-locked") /\ hs[b] = "running" /\ P(RunSlot(b)).kind = "run-jobs" /\ nodeFile[b] # <<>>
  /\ P(RunSlot(b)).pc = "nwait" /\ \E j \in ToSet(P(RunSlot(b)).outst) : jp[j] = "exited"
  /\ nfault' = nfault + 1 /\ stuck' = stuck \cup {b}
  /\ LET h1 == [hs EXCEPT ![b] = "killed"]
         bj == ToSet(bfile[b].jobs)
     IN /\ hs' = h1
        /\ procs' = [procs EXCEPT ![RunSlot(b)] = Idle, ![TrySlot(b)] = Idle]
        /\ jp' = [j \in J |-> IF j \in bj /\ jp[j] \in {"running", "exited"} THEN "none" ELSE jp[j]]
        /\ Feed(<<"NodeKillLocked", b, 0>>, <<[e |-> "nodekill", pid |-> P(RunSlot(b)).pid],
                                              [e |-> "hpc", what |-> "kill", b |-> b, active |-> Active(h1)]>>)
  /\ UNCHANGED <<S, cfg, js, marker, bfile, nodeFile, processed, npid, nuser, ended, ncancel, nresub>>

\* ---------------------------------------------------------------- cancel-jobs (cli/cancel_jobs.py, JobSubmitter.cancel_jobs)
\* UserCancel: the user runs `jade cancel-jobs <output>` on the login host, at any moment, once.
UserCancel ==
  /\ UserCancels /\ ncancel = 0 /\ ~ended /\ P(CSLOT).kind = "none"
  /\ ncancel' = 1 /\ npid' = npid + 1
  /\ Set(CSLOT, [Idle EXCEPT !.kind = "cancel-jobs", !.pc = "cpromote", !.pid = npid + 1])
  /\ Feed(<<"UserCancel", CSLOT, 0>>, <<EvProc(npid + 1, "cancel-jobs", FALSE, -1)>>)
  /\ UNCHANGED <<S, cfg, js, marker, bfile, hs, nodeFile, processed, jp, nuser, ended, nfault, nresub, stuck>>

\* `for _ in range(60): deserialize(try_promote...)`: refused -> sleep 1 s and try again
CPromote(s) ==
  /\ s = CSLOT /\ P(s).pc = "cpromote"
  /\ IF cfg.sub # ""
       THEN /\ Set(s, P(s))
            /\ Feed(<<"CPromote", s, 0>>, <<EvPromote(P(s).pid, "login", FALSE, cfg.sub, cfg.sub, FALSE)>>)
            /\ UNCHANGED cfg
       ELSE LET c1 == [cfg EXCEPT !.sub = "login", !.ver = @ + 1] IN
            /\ cfg' = c1
            /\ Set(s, [P(s) EXCEPT !.pc = IF cfg.complete THEN "cdemote0" ELSE "cscancel", !.lcfg = c1, !.wcfg = c1, !.ljs = js,
                                   !.todo = js.ids])
            /\ Feed(<<"CPromote", s, 1>>, <<EvStatus(P(s).pid, c1, js, marker, nodeFile, processed),
                                            EvPromote(P(s).pid, "login", TRUE, "", "login", FALSE)>>)
  /\ UNCHANGED <<S, js, marker, bfile, hs, nodeFile, processed, jp, npid, nuser, ended, nfault, ncancel, nresub, stuck>>

\* `for _ in range(60)` runs out: "Failed to get promoted to submitter", exit 1, nothing canceled. The count is abstracted: a
\* refused cancel-jobs may give up whenever somebody holds the role (a holder slow enough for the remaining attempts is always
\* possible -- the model has no clock); the replay lets the real process use up its remaining attempts while the others rest.
\* It never takes the role from a holder.
CGiveUp(s) ==
  /\ s = CSLOT /\ P(s).pc = "cpromote" /\ cfg.sub # ""
  /\ Set(s, Idle)
  /\ Feed(<<"CGiveUp", s, 0>>, <<EvPromote(P(s).pid, "login", FALSE, cfg.sub, cfg.sub, FALSE), EvExit(P(s).pid, "cancel-jobs", 1, "")>>)
  /\ UNCHANGED <<S, cfg, js, marker, bfile, hs, nodeFile, processed, jp, npid, nuser, ended, nfault, ncancel, nresub, stuck>>

\* scancel of the next persisted id (in the persisted order): a pending batch leaves the queue, a running one is killed
\* with everything on its node; a batch that already left the queue makes scancel fail (ignored)
CScancel(s) ==
  /\ s = CSLOT /\ P(s).pc = "cscancel"
  /\ IF P(s).todo = {}
       THEN /\ Set(s, [P(s) EXCEPT !.pc = "cmark"]) /\ Feed(<<"CScancel", s, 0>>, <<>>)
            /\ UNCHANGED <<hs, jp>>
       ELSE LET b == CHOOSE x \in P(s).todo : \A y \in P(s).todo : x <= y
                running == hs[b] = "running"
                h1 == IF hs[b] \in {"pending", "running"} THEN [hs EXCEPT ![b] = "cancelled"] ELSE hs
                tryAlive == P(TrySlot(b)).kind # "none"
                bj == ToSet(bfile[b].jobs)
                kills == IF running
                           THEN <<[e |-> "nodekill", pid |-> P(RunSlot(b)).pid]>>
                                \o (IF tryAlive THEN <<[e |-> IF HoldsRole(TrySlot(b)) THEN "kill" ELSE "nodekill", pid |-> P(TrySlot(b)).pid]>> ELSE <<>>)
                           ELSE <<>>
                hev == IF hs[b] \in {"pending", "running"} THEN <<[e |-> "hpc", what |-> "cancel", b |-> b, active |-> Active(h1)]>> ELSE <<>>
            IN /\ hs' = h1
               /\ procs' = [procs EXCEPT ![s].todo = @ \ {b},
                                         ![RunSlot(b)] = IF running THEN Idle ELSE @,
                                         ![TrySlot(b)] = IF running THEN Idle ELSE @]
               /\ jp' = [j \in J |-> IF running /\ j \in bj /\ jp[j] \in {"running", "exited"} THEN "none" ELSE jp[j]]
               /\ Feed(<<"CScancel", s, b>>, <<[e |-> "scancel", b |-> b]>> \o kills \o hev)
  /\ UNCHANGED <<S, cfg, js, marker, bfile, nodeFile, processed, npid, nuser, ended, nfault, ncancel, nresub, stuck>>

CMark(s) ==
  /\ s = CSLOT /\ P(s).pc = "cmark"
  /\ LET c1 == [P(s).lcfg EXCEPT !.canceled = TRUE, !.ver = @ + 1] IN
     /\ cfg' = c1
     /\ Set(s, [P(s) EXCEPT !.pc = "cdemote", !.lcfg = c1, !.wcfg = c1])
     /\ Feed(<<"CMark", s, 0>>, <<EvStatus(P(s).pid, c1, js, marker, nodeFile, processed)>>)
  /\ UNCHANGED <<S, js, marker, bfile, hs, nodeFile, processed, jp, npid, nuser, ended, nfault, ncancel, nresub, stuck>>

\* demote; on an already complete submission that is all (exit 0); otherwise sleep 15 s and run try-submit-jobs
CDemote(s) ==
  /\ s = CSLOT /\ P(s).pc \in {"cdemote", "cdemote0"}
  /\ LET c1 == [P(s).lcfg EXCEPT !.sub = "", !.ver = @ + 1]
         done == P(s).pc = "cdemote0" IN
     /\ cfg' = c1
     /\ IF done THEN procs' = [procs EXCEPT ![s] = Idle] ELSE Set(s, [P(s) EXCEPT !.pc = "ctry", !.lcfg = c1, !.wcfg = c1])
     /\ Feed(<<"CDemote", s, IF done THEN 0 ELSE 1>>,
             <<EvStatus(P(s).pid, c1, js, marker, nodeFile, processed)>>
             \o (IF done THEN <<EvExit(P(s).pid, "cancel-jobs", 0, "")>> ELSE <<>>))
  /\ UNCHANGED <<S, js, marker, bfile, hs, nodeFile, processed, jp, npid, nuser, ended, nfault, ncancel, nresub, stuck>>

CTrySpawn(s) ==
  /\ s = CSLOT /\ P(s).pc = "ctry" /\ P(CTRY).kind = "none"
  /\ npid' = npid + 1
  /\ procs' = [procs EXCEPT ![s].pc = "cwait",
                            ![CTRY] = [Idle EXCEPT !.kind = "try-submit-jobs", !.pc = "promote", !.pid = npid + 1]]
  /\ Feed(<<"CTrySpawn", s, 0>>, <<EvProc(npid + 1, "try-submit-jobs", TRUE, -1)>>)
  /\ UNCHANGED <<S, cfg, js, marker, bfile, hs, nodeFile, processed, jp, nuser, ended, nfault, ncancel, nresub, stuck>>

\* the nested try-submit-jobs returned: cancel-jobs exits with its return code
CEnd(s) ==
  /\ s = CSLOT /\ P(s).pc = "cend"
  /\ Set(s, Idle)
  /\ Feed(<<"CEnd", s, 0>>, <<EvExit(P(s).pid, "cancel-jobs", P(s).rc, "")>>)
  /\ UNCHANGED <<S, cfg, js, marker, bfile, hs, nodeFile, processed, jp, npid, nuser, ended, nfault, ncancel, nresub, stuck>>

CancelStep(s) == CPromote(s) \/ CGiveUp(s) \/ CScancel(s) \/ CMark(s) \/ CDemote(s) \/ CTrySpawn(s) \/ CEnd(s)

\* ---------------------------------------------------------------- the user
QuiescentDef == /\ \A s \in Slots : P(s).kind = "none"
             /\ \A b \in B : hs[b] \notin {"pending", "running"}
Quiescent == QuiescentDef

\* ---------------------------------------------------------------- resubmit-jobs (cli/resubmit_jobs.py, Cluster.prepare_for_resubmission)
\* the user reruns part of the completed submission: the selection by the flags from the results, closed under dependents
RowClass(r) == IF r[3] = "canceled" THEN "canceled" ELSE IF r[2] = "0" THEN "successful" ELSE "failed"
SelectedBy(f) ==
  LET withRow == RowNames(processed)
      cls(j) == RowClass(processed[CHOOSE k \in 1..Len(processed) : processed[k][1] = j])
  IN {j \in J : \/ (j \in withRow /\ f.failed /\ cls(j) \in {"failed", "canceled"})
                \/ (j \in withRow /\ f.successful /\ cls(j) = "successful")
                \/ (j \notin withRow /\ f.missing)}
RECURSIVE Downstream(_)
Downstream(X) == LET Y == X \cup {j \in J : ToSet(S.blk[j]) \cap X # {}} IN IF Y = X THEN X ELSE Downstream(Y)
FlagCode(f) == (IF f.failed THEN 1 ELSE 0) + (IF f.missing THEN 2 ELSE 0) + (IF f.successful THEN 4 ELSE 0)

UserResubmit ==
  /\ nresub < MaxResub /\ QuiescentDef /\ cfg.complete /\ ~cfg.canceled /\ ~ended
  \* (`-s FILE`: when the scenario carries replacement parameters for its groups -- S.hasregroup, S.regroup -- the user may
  \*  pass them; the `regroup` event tells the monitor, RReset makes them the parameters the batching actions read)
  /\ \E f \in ResubFlags : \E rg \in (IF S.hasregroup THEN BOOLEAN ELSE {FALSE}) :
       /\ nresub' = nresub + 1 /\ npid' = npid + 1 /\ nuser' = 0        \* the new epoch gets its own recovery rounds
       /\ Set(LOGIN, [Idle EXCEPT !.kind = "resubmit-jobs", !.pc = "rpromote", !.pid = npid + 1, !.fl = f, !.rg = rg])
       /\ Feed(<<"UserResubmit", IF rg THEN 1 ELSE 0, FlagCode(f)>>,
               (IF rg THEN <<[e |-> "regroup", groups |-> S.regroup]>> ELSE <<>>)
                 \o <<[EvProc(npid + 1, "resubmit-jobs", FALSE, -1) EXCEPT !.fl = f]>>)
  /\ UNCHANGED <<S, cfg, js, marker, bfile, hs, nodeFile, processed, jp, ended, nfault, ncancel, stuck>>

\* Cluster.deserialize(try_promote_to_submitter=True): nobody else is around on a complete, quiet submission
RPromote(s) ==
  /\ s = LOGIN /\ P(s).pc = "rpromote"
  /\ LET c1 == [cfg EXCEPT !.sub = "login", !.ver = @ + 1] IN
     /\ cfg' = c1
     /\ Set(s, [P(s) EXCEPT !.pc = "rreset", !.lcfg = c1, !.wcfg = c1, !.ljs = js])
     /\ Feed(<<"RPromote", s, 0>>, <<EvStatus(P(s).pid, c1, js, marker, nodeFile, processed),
                                     EvPromote(P(s).pid, "login", TRUE, "", "login", FALSE)>>)
  /\ UNCHANGED <<S, js, marker, bfile, hs, nodeFile, processed, jp, npid, nuser, ended, nfault, ncancel, nresub, stuck>>

\* the results are read (processed-results lock), then -- without a lock -- the rerun jobs' rows are pruned and
\* prepare_for_resubmission resets states, blockers (those that are themselves rerun), counters and the completion flag
RReset(s) ==
  /\ s = LOGIN /\ P(s).pc = "rreset"
  /\ LET p == P(s)
         rr == Downstream(SelectedBy(p.fl))
         pr == SelectSeq(processed, LAMBDA r : r[1] \notin rr)
         js1 == [js EXCEPT !.st = [j \in J |-> IF j \in rr THEN 0 ELSE @[j]],
                           !.rem = [j \in J |-> IF j \in rr THEN ToSet(S.blk[j]) \cap rr ELSE @[j]],
                           !.ver = @ + 1]
         c1 == [p.lcfg EXCEPT !.complete = FALSE,
                              !.nsub = Cardinality({j \in J : js1.st[j] # 0}),
                              !.ndone = Cardinality({j \in J \ rr : js.st[j] = 2}),
                              !.ver = @ + 1]
     IN /\ processed' = pr /\ js' = js1 /\ cfg' = c1
        /\ Set(s, [p EXCEPT !.pc = "poll", !.lcfg = c1, !.wcfg = c1, !.ljs = js1, !.lbidx = js1.bidx, !.act = js1.ids])
        /\ Feed(<<"RReset", s, 0>>, <<EvRows(nodeFile, processed), EvStatus(p.pid, c1, js1, marker, nodeFile, pr)>>)
        \* the groups replaced in the command's copy of the cluster configuration are persisted with the reset
        /\ S' = IF p.rg THEN [S EXCEPT !.groups = S.regroup] ELSE S
  /\ UNCHANGED <<marker, bfile, hs, nodeFile, jp, npid, nuser, ended, nfault, ncancel, nresub, stuck>>

\* the documented recovery: try-submit-jobs (also what show-status offers) when nothing is active
UserTry ==
  /\ (Quiescent \/ (EagerUser /\ P(LOGIN).kind = "none")) /\ ~cfg.complete /\ nuser < MaxUser /\ ~ended
  /\ npid' = npid + 1 /\ nuser' = nuser + 1
  /\ Set(LOGIN, [Idle EXCEPT !.kind = "try-submit-jobs", !.pc = "promote", !.pid = npid + 1])
  /\ Feed(<<"UserTry", 0, 0>>, <<EvProc(npid + 1, "try-submit-jobs", FALSE, -1)>>)
  /\ UNCHANGED <<S, cfg, js, marker, bfile, hs, nodeFile, processed, jp, ended, nfault, ncancel, nresub, stuck>>

\* the run is over (complete, or the user gave up): final checks of the monitor
End ==
  /\ Quiescent /\ ~ended /\ (cfg.complete \/ nuser >= MaxUser)
  /\ ended' = TRUE
  \* (with an eager user the bounded number of rounds may have been spent while they were refused: an incomplete end is
  \*  then the bound's doing, not a verdict about recovery)
  /\ Feed(<<"End", 0, 0>>, <<[e |-> "end", full |-> (cfg.complete \/ ~EagerUser)]>>)
  /\ UNCHANGED <<S, cfg, js, marker, bfile, hs, nodeFile, processed, jp, procs, npid, nuser, nfault, ncancel, nresub, stuck>>

SubStep(s) == \/ Promote(s) \/ Poll(s) \/ Glob(s) \/ (\E b \in B : Move(s, b) \/ MoveBlocked(s, b)) \/ CancelPass(s) \/ MarkerTouch(s)
              \/ NextGroup(s) \/ SubmitBatch(s) \/ SubmitBatchFail(s) \/ Persist(s) \/ CheckComplete(s) \/ MarkerRemove(s)
              \/ Summary(s) \/ Teardown(s) \/ MarkComplete(s) \/ Demote(s) \/ RPromote(s) \/ RReset(s)
NodeStep(s) == NodeSetup(s) \/ NodeInit(s) \/ NodePoll(s) \/ NodeTeardown(s) \/ NodeTry(s) \/ NodeEnd(s)

Next == \/ \E s \in Slots : SubStep(s) \/ NodeStep(s) \/ Kill(s) \/ CancelStep(s)
        \/ UserCancel \/ UserResubmit
        \/ \E b \in B : NodeKill(b) \/ NodeKillLocked(b)
        \/ \E b \in B : StartBatch(b)
        \/ \E j \in J : JobExit(j)
        \/ UserTry
        \/ End

Spec == Init /\ [][Next]_vars
AllJobNames == UNION {{Sc.jobs[k] : k \in 1..Len(Sc.jobs)} : Sc \in Scns}
FairSpec == Spec /\ \A s \in Slots : WF_vars(SubStep(s) \/ NodeStep(s))
                 /\ \A b \in B : WF_vars(StartBatch(b))
                 /\ \A j \in AllJobNames : WF_vars(JobExit(j))
                 /\ WF_vars(UserTry)
\* ... and the cancel-jobs process takes its steps (its 60 one-second attempts at the role are not bounded here: the other
\* processes' work is finite, so weak fairness gives it the role eventually)
FairSpecCancel == FairSpec /\ WF_vars(CancelStep(CSLOT))

\* history that does not carry behaviour is hidden from the state space
View == <<implvars, [m EXCEPT !.pos = 0, !.vpos = <<>>, !.cnt = <<>>, !.kind = <<>>, !.rounds = {@[p] : p \in DOMAIN @},
                              !.alive = {}, !.holder = 0]>>

\* ---------------------------------------------------------------- properties (the monitor's, evaluated on the model)
MonitorClean == m.viol = {}
P_C01 == Holds(m, "C01")
P_C02 == Holds(m, "C02")
P_C03 == Holds(m, "C03")
P_C04 == Holds(m, "C04")
P_C05 == Holds(m, "C05")
P_C06 == Holds(m, "C06")
P_C07 == Holds(m, "C07")
P_C08 == Holds(m, "C08")
P_C09 == Holds(m, "C09")
P_C10 == Holds(m, "C10")
P_C12 == Holds(m, "C12")
P_C14 == Holds(m, "C14")

\* native statements of a few of them over the model's own variables (cross-check of the monitor)
N_OneSubmitterRole == Cardinality({s \in Slots : IsSubmitterKind(P(s).kind) /\ P(s).pc \notin {"promote", "exit", "idle"}}) <= 1
N_NodesBound == S.maxnodes > 0 => Active(hs) <= S.maxnodes
N_CountersMatch == /\ cfg.ndone = Cardinality({j \in J : js.st[j] = 2})
                   /\ cfg.nsub = Cardinality({j \in J : js.st[j] >= 1})
N_DoneHasRow == \A j \in J : js.st[j] = 2 => j \in NamesOnDisk(nodeFile, processed)
N_RowsUnique == LET all == processed \o CatFiles(B) IN Len(all) = Cardinality(RowNames(all))

\* vacuity: print the antecedent counters of finished behaviours (debug configurations only)
ShowCounters == ended => PrintT(<<"CNT", m.cnt, cfg.complete, nuser>>)

\* behaviours for replay into the real code: printed when a behaviour has ended
DumpBehaviour == (Log /\ ended) => PrintT(<<"BEHAVIOUR", ToJson([scn |-> S.id, path |-> path, elog |-> elog])>>)

\* C05 liveness: under fairness (and the user running the documented recovery) the submission completes
EventuallyComplete == <>(cfg.complete)
\* C14 liveness: a cancellation ends the submission -- complete, nobody left running, nothing left in the queue; and if it
\* found the submission incomplete, the submission is marked canceled
CancelEnds == (ncancel = 1) ~> (cfg.complete /\ QuiescentDef /\ \A j \in J : jp[j] # "running")
CancelMarks == (P(CSLOT).pc = "cscancel") ~> (cfg.canceled /\ cfg.complete)
\* C13 liveness: the resubmitted part completes again (with --missing in the flags; without it the rerun jobs may wait for
\* ever for a blocker nobody reruns -- K2)
ResubmitEnds == (nresub >= 1 /\ ~cfg.complete) ~> (cfg.complete /\ QuiescentDef)
NoLaunchAfterComplete == [][cfg.complete => jp' = jp \/ \A j \in J : jp'[j] # "running" \/ jp[j] = "running"]_vars
=============================================================================
