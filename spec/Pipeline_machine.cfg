SPECIFICATION Spec
CONSTANTS
  Mode = "machine"
  MaxN = 4
INVARIANT P_MonitorClean
INVARIANT P_Completes
INVARIANT P_StopsAtFailure
CHECK_DEADLOCK FALSE
