---------------------------- MODULE ClusterStore ----------------------------
(***************************************************************************)
(* Layer (I): jobs/cluster.py -- the versioned two-file store             *)
(* (cluster_config.json + config_version.txt, job_status.json +           *)
(* job_status_version.txt) under the cluster lock, and the submitter role. *)
(* A *handle* is one Cluster object in one process: it carries copies of   *)
(* both files as of the time it was (re)loaded.  Every operation is one    *)
(* hold of the cluster lock (Cluster._do_action_under_lock); the order of  *)
(* checks and writes inside follows the code:                              *)
(*   _serialize:       check cfg version file; if content changed since    *)
(*                     this handle last wrote: version+1, write version    *)
(*                     file, write data file                               *)
(*   _serialize_jobs:  check job-status version file; version+1, write     *)
(*   _update_job_status: mutate both copies; (repaired tree: check both    *)
(*                     versions first;) _serialize; _serialize_jobs        *)
(* An exception inside the locked function releases the lock and re-       *)
(* creates the marker on purpose ("a deadlock will occur").                *)
(* Crash histories: an operation written "op!k" in a script is killed      *)
(* after its k-th file write (the writes of one update, in the code's      *)
(* order: config version file, config data file, job-status version file,  *)
(* job-status data file); the dead process' lock marker stays and is       *)
(* broken only by a lock library that breaks stale markers (Modern), for   *)
(* a process on the same host.  The version file is written first, so an   *)
(* interrupted update leaves the version file ahead of the data and every  *)
(* older handle fenced out.                                                *)
(***************************************************************************)
EXTENDS JadeMonitor, Json

CONSTANTS Scripts,   \* <<[host |-> "h1", ops |-> <<"loadp", "update", "demote">>], ...>>  one handle per process
          Scn, Log,
          FixedF9,   \* TRUE: update validates both version files before writing either (fix: commit); FALSE: pinned order
          Modern     \* lock library breaks a dead same-host process' marker and JADE's deliberate (malformed) marker

H == 1..Len(Scripts)
Ops == {"load", "loadp", "promote", "demote", "update", "jsonly", "cancel", "complete", "recreate", "wait"}

VARIABLES cfg, cfgVerF, js, jsVerF,   \* disk
          lock,                        \* "free" | "deliberate" | "dead" (marker of a killed process)
          deadHost,                    \* host of the killed process whose marker is in place
          hd,                          \* [H -> [pc, loaded, cfg, wcfg, js, role]]
          m, path, elog

vars == <<cfg, cfgVerF, js, jsVerF, lock, deadHost, hd, m, path, elog>>
None == ""
NoCfg == [sub |-> None, pay |-> 0, canceled |-> FALSE, complete |-> FALSE, ver |-> 0]
NoJs == [pay |-> 0, ver |-> 0]

Feed(lbl, evs) == /\ m' = MonSteps(Scn, m, evs)
                  /\ path' = IF Log THEN Append(path, lbl) ELSE path
                  /\ elog' = IF Log THEN elog \o evs ELSE elog

Init ==
  \* after Cluster.create (versions 1/1) and the creator's demotion (config version 2)
  /\ cfg = [sub |-> None, pay |-> 0, canceled |-> FALSE, complete |-> FALSE, ver |-> 2] /\ cfgVerF = 2
  /\ js = [pay |-> 0, ver |-> 1] /\ jsVerF = 1
  /\ lock = "free" /\ deadHost = None
  /\ hd = [h \in H |-> [pc |-> 1, loaded |-> FALSE, cfg |-> NoCfg, wcfg |-> NoCfg, js |-> NoJs, role |-> FALSE, gen |-> 0]]
  /\ m = MonInit(Scn) /\ path = <<>> /\ elog = <<>>

RawOp(h) == Scripts[h].ops[hd[h].pc]
CrashTable == ("loadp!1" :> <<"loadp", 1>>) @@ ("promote!1" :> <<"promote", 1>>) @@ ("demote!1" :> <<"demote", 1>>) @@
              ("cancel!1" :> <<"cancel", 1>>) @@ ("jsonly!1" :> <<"jsonly", 1>>) @@ ("update!1" :> <<"update", 1>>) @@
              ("update!2" :> <<"update", 2>>) @@ ("update!3" :> <<"update", 3>>)
Op(h) == IF RawOp(h) \in DOMAIN CrashTable THEN CrashTable[RawOp(h)][1] ELSE RawOp(h)
CrashAt(h) == IF RawOp(h) \in DOMAIN CrashTable THEN CrashTable[RawOp(h)][2] ELSE 0
Host(h) == Scripts[h].host
\* which incarnation of the output directory a handle belongs to (`submit-jobs --force` removes the directory and creates
\* the submission anew: "recreate"); the current incarnation is the newest one any handle has seen
Gen == CHOOSE g \in {hd[h].gen : h \in H} : \A x \in H : hd[x].gen <= g
\* the lock can be taken: no marker, or a marker the lock library breaks
Avail(h) == lock = "free" \/ (Modern /\ (lock = "deliberate" \/ (lock = "dead" /\ deadHost = Host(h))))

\* the event the harness records for one API operation of a handle
EvCop(h, op, exc, changed, wc, wj, ok) ==
  [e |-> "cop", pid |-> h, op |-> op, hcver |-> hd[h].cfg.ver, hjver |-> hd[h].js.ver, dcver |-> cfgVerF, djver |-> jsVerF,
   ddcver |-> cfg.ver, ddjver |-> js.ver,
   exc |-> exc, changed |-> changed, wcfg |-> wc, wjs |-> wj, ok |-> ok, before |-> cfg.sub, host |-> Host(h),
   loaded |-> hd[h].loaded]

\* result of _serialize on copy c by handle h: [exc, cfg', cfgVerF', wcfg']
Ser(h, c) ==
  IF c.ver # cfgVerF THEN [exc |-> "ConfigVersionMismatch", cfg |-> cfg, verf |-> cfgVerF, copy |-> c, w |-> hd[h].wcfg]
  ELSE IF c = hd[h].wcfg THEN [exc |-> "", cfg |-> cfg, verf |-> cfgVerF, copy |-> c, w |-> hd[h].wcfg]
  ELSE LET c1 == [c EXCEPT !.ver = @ + 1] IN [exc |-> "", cfg |-> c1, verf |-> c1.ver, copy |-> c1, w |-> c1]

SerJs(h, s) ==
  IF s.ver # jsVerF THEN [exc |-> "JobStatusVersionMismatch", js |-> js, verf |-> jsVerF, copy |-> s]
  ELSE LET s1 == [s EXCEPT !.ver = @ + 1] IN [exc |-> "", js |-> s1, verf |-> s1.ver, copy |-> s1]

Advance(h, rec) == hd' = [hd EXCEPT ![h] = [rec EXCEPT !.pc = @ + 1]]
Raise == lock' = "deliberate" /\ deadHost' = None
\* the operation ends normally: its own marker is removed (a broken marker of somebody else is gone too)
Release == lock' = "free" /\ deadHost' = None

\* ---- how many file writes the next operation of h would perform in the current state (0: it writes nothing)
CfgTarget(h) ==
  LET c == hd[h].cfg IN
  CASE Op(h) = "promote" -> [c EXCEPT !.sub = Host(h)]
    [] Op(h) = "demote" -> [c EXCEPT !.sub = None]
    [] Op(h) = "complete" -> [c EXCEPT !.complete = TRUE]      \* mark_complete: the holder sets the flag, then demotes
    [] OTHER -> [c EXCEPT !.canceled = TRUE]
NumWrites(h) ==
  CASE Op(h) = "load" -> 0
    [] Op(h) = "loadp" -> IF cfg.sub = None /\ cfg.ver = cfgVerF THEN 2 ELSE 0
    [] Op(h) \in {"promote", "demote", "cancel", "complete"} ->
         IF ~hd[h].loaded \/ (Op(h) = "promote" /\ hd[h].cfg.sub # None) \/ (Op(h) = "demote" /\ hd[h].cfg.sub # Host(h)) THEN 0
         ELSE LET r == Ser(h, CfgTarget(h)) IN IF r.exc = "" /\ r.verf # cfgVerF THEN 2 ELSE 0
    [] Op(h) = "jsonly" -> IF hd[h].loaded /\ SerJs(h, [hd[h].js EXCEPT !.pay = @ + 1]).exc = "" THEN 2 ELSE 0
    [] Op(h) = "update" ->
         IF ~hd[h].loaded THEN 0
         ELSE LET c1 == [hd[h].cfg EXCEPT !.pay = @ + 1]
                  s1 == [hd[h].js EXCEPT !.pay = @ + 1]
                  r == Ser(h, c1)
                  q == SerJs(h, s1) IN
              IF (FixedF9 /\ (c1.ver # cfgVerF \/ s1.ver # jsVerF)) \/ r.exc # "" THEN 0
              ELSE (IF r.verf # cfgVerF THEN 2 ELSE 0) + (IF q.exc = "" THEN 2 ELSE 0)
    [] OTHER -> 0
\* the operation is one that gets killed part-way (it performs more writes than the crash point allows)
Dies(h) == CrashAt(h) > 0 /\ NumWrites(h) > CrashAt(h)

\* an operation attempted while a marker is in place that the lock library does not break never gets the lock
\* (Timeout), nothing changes
\* callers demote only what they were promoted to (`if not promoted: exit` ... `finally: demote`): no lock is taken
Skippable(h) == Op(h) = "demote" /\ ~hd[h].role /\ hd[h].loaded
Skip(h) ==
  /\ hd[h].pc <= Len(Scripts[h].ops) /\ Skippable(h)
  /\ Advance(h, hd[h]) /\ Feed(<<"Skip", h>>, <<>>)
  /\ UNCHANGED <<cfg, cfgVerF, js, jsVerF, lock, deadHost>>

\* a process whose load failed has no Cluster object: its script ends
Abort(h) ==
  /\ hd[h].pc <= Len(Scripts[h].ops) /\ ~hd[h].loaded /\ Op(h) \notin {"load", "loadp", "recreate", "wait"}
  /\ hd' = [hd EXCEPT ![h].pc = Len(Scripts[h].ops) + 1] /\ Feed(<<"Skip", h>>, <<>>)
  /\ UNCHANGED <<cfg, cfgVerF, js, jsVerF, lock, deadHost>>

Blocked(h) ==
  /\ hd[h].pc <= Len(Scripts[h].ops) /\ ~Avail(h) /\ ~Skippable(h) /\ Op(h) \notin {"recreate", "wait"}
  /\ (hd[h].loaded \/ Op(h) \in {"load", "loadp"})
  /\ Advance(h, hd[h])
  /\ Feed(<<"Blocked", h>>, <<EvCop(h, Op(h), "Timeout", FALSE, FALSE, FALSE, FALSE)>>)
  /\ UNCHANGED <<cfg, cfgVerF, js, jsVerF, lock, deadHost>>

\* Cluster.deserialize(path, try_promote_to_submitter=p, deserialize_jobs=True): a fresh handle
Load(h, p) ==
  /\ hd[h].pc <= Len(Scripts[h].ops) /\ Avail(h) /\ ~Dies(h) /\ Op(h) = (IF p THEN "loadp" ELSE "load")
  /\ LET fresh == [hd[h] EXCEPT !.loaded = TRUE, !.cfg = cfg, !.wcfg = NoCfg, !.js = js, !.role = FALSE, !.gen = Gen] IN
     IF p /\ cfg.sub = None
       THEN LET c == [cfg EXCEPT !.sub = Host(h)]
                r == Ser(h, c) IN       \* wcfg of a fresh handle is empty: always a write
            IF cfg.ver # cfgVerF
              THEN /\ Advance(h, fresh) /\ Raise
                   /\ Feed(<<"Load", h>>, <<EvCop(h, Op(h), "ConfigVersionMismatch", FALSE, TRUE, FALSE, FALSE)>>)
                   /\ UNCHANGED <<cfg, cfgVerF, js, jsVerF>>
              ELSE LET c1 == [c EXCEPT !.ver = @ + 1] IN
                   /\ cfg' = c1 /\ cfgVerF' = c1.ver
                   /\ Advance(h, [fresh EXCEPT !.cfg = c1, !.wcfg = c1, !.role = TRUE])
                   /\ Feed(<<"Load", h>>, <<[EvCop(h, Op(h), "", TRUE, TRUE, FALSE, TRUE) EXCEPT !.hcver = cfg.ver, !.hjver = js.ver]>>)
                   /\ Release /\ UNCHANGED <<js, jsVerF>>
       ELSE /\ Advance(h, fresh)
            /\ Feed(<<"Load", h>>, <<[EvCop(h, Op(h), "", FALSE, FALSE, FALSE, FALSE) EXCEPT !.hcver = cfg.ver, !.hjver = js.ver]>>)
            /\ Release /\ UNCHANGED <<cfg, cfgVerF, js, jsVerF>>

\* `jade submit-jobs --force` on the existing output directory (cli/submit_jobs.py: rmtree, then Cluster.create): whatever
\* was there -- state files, version files, a marker left behind -- is gone; the new submission starts at versions 1/1 with
\* its creator as submitter.  Processes of the old submission that are still alive keep their handles (copies ahead of the
\* new files' versions): everything they try afterwards is a stale write.
Recreate(h) ==
  /\ hd[h].pc <= Len(Scripts[h].ops) /\ Op(h) = "recreate"
  /\ LET c1 == [sub |-> Host(h), pay |-> 0, canceled |-> FALSE, complete |-> FALSE, ver |-> 1]
         s1 == [pay |-> 0, ver |-> 1] IN
     /\ cfg' = c1 /\ cfgVerF' = 1 /\ js' = s1 /\ jsVerF' = 1
     /\ Advance(h, [hd[h] EXCEPT !.loaded = TRUE, !.cfg = c1, !.wcfg = c1, !.js = s1, !.role = TRUE, !.gen = Gen + 1])
     /\ Release
     /\ Feed(<<"Recreate", h>>, <<[e |-> "recreated", pid |-> h], [EvCop(h, "recreate", "", TRUE, TRUE, TRUE, TRUE) EXCEPT !.loaded = FALSE, !.before = None,
                                                                                          !.hcver = 0, !.hjver = 0]>>)

\* time passes for this process (two hours by its clock since the files were last written) before its next operation: the
\* state files say who holds the role, not how long ago -- nothing an operation does may depend on their age
Wait(h) ==
  /\ hd[h].pc <= Len(Scripts[h].ops) /\ Op(h) = "wait"
  /\ Advance(h, hd[h]) /\ Feed(<<"Skip", h>>, <<>>)
  /\ UNCHANGED <<cfg, cfgVerF, js, jsVerF, lock, deadHost>>

\* a cfg-only operation on an existing handle: promote_to_submitter / demote_from_submitter / mark_canceled / mark_complete
\* (the role is a matter of the submitter field alone: a complete submission with a holder still refuses promotion)
CfgOp(h) ==
  /\ hd[h].pc <= Len(Scripts[h].ops) /\ Avail(h) /\ ~Dies(h) /\ Op(h) \in {"promote", "demote", "cancel", "complete"} /\ hd[h].loaded
  /\ ~Skippable(h)
  /\ LET c == hd[h].cfg
         op == Op(h) IN
     IF op = "promote" /\ c.sub # None
       THEN \* has_submitter() on the handle's copy: returns False, nothing is written
            /\ Advance(h, hd[h]) /\ Feed(<<"CfgOp", h>>, <<EvCop(h, op, "", FALSE, FALSE, FALSE, FALSE)>>)
            /\ Release /\ UNCHANGED <<cfg, cfgVerF, js, jsVerF>>
     ELSE IF op = "demote" /\ c.sub # Host(h)
       THEN \* assert self.am_i_submitter()
            /\ Advance(h, hd[h]) /\ Raise /\ Feed(<<"CfgOp", h>>, <<EvCop(h, op, "AssertionError", FALSE, FALSE, FALSE, FALSE)>>)
            /\ UNCHANGED <<cfg, cfgVerF, js, jsVerF>>
     ELSE LET c1 == CfgTarget(h)
              r == Ser(h, c1) IN
          /\ cfg' = r.cfg /\ cfgVerF' = r.verf
          /\ Advance(h, [hd[h] EXCEPT !.cfg = r.copy, !.wcfg = r.w,
                                      !.role = IF r.exc = "" THEN (IF op = "promote" THEN TRUE ELSE IF op = "demote" THEN FALSE ELSE @) ELSE @])
          /\ (IF r.exc # "" THEN Raise ELSE Release)
          /\ Feed(<<"CfgOp", h>>, <<EvCop(h, op, r.exc, r.cfg # cfg, TRUE, FALSE, op = "promote" /\ r.exc = "")>>)
          /\ UNCHANGED <<js, jsVerF>>

\* a job-status-only write (serialize_jobs after a change, e.g. complete_hpc_job_id)
JsOp(h) ==
  /\ hd[h].pc <= Len(Scripts[h].ops) /\ Avail(h) /\ ~Dies(h) /\ Op(h) = "jsonly" /\ hd[h].loaded
  /\ LET s1 == [hd[h].js EXCEPT !.pay = @ + 1]
         r == SerJs(h, s1) IN
     /\ js' = r.js /\ jsVerF' = r.verf
     /\ Advance(h, [hd[h] EXCEPT !.js = r.copy])
     /\ (IF r.exc # "" THEN Raise ELSE Release)
     /\ Feed(<<"JsOp", h>>, <<EvCop(h, "jsonly", r.exc, r.js # js, FALSE, TRUE, FALSE)>>)
     /\ UNCHANGED <<cfg, cfgVerF>>

\* update_job_status: both copies change, then _serialize, then _serialize_jobs
Update(h) ==
  /\ hd[h].pc <= Len(Scripts[h].ops) /\ Avail(h) /\ ~Dies(h) /\ Op(h) = "update" /\ hd[h].loaded
  /\ LET c1 == [hd[h].cfg EXCEPT !.pay = @ + 1]
         s1 == [hd[h].js EXCEPT !.pay = @ + 1]
         early == FixedF9 /\ (c1.ver # cfgVerF \/ s1.ver # jsVerF)
         r == Ser(h, c1)
         q == SerJs(h, s1) IN
     IF early
       THEN /\ Advance(h, [hd[h] EXCEPT !.cfg = c1, !.js = s1]) /\ Raise
            /\ Feed(<<"Update", h>>, <<EvCop(h, "update", IF c1.ver # cfgVerF THEN "ConfigVersionMismatch" ELSE "JobStatusVersionMismatch",
                                            FALSE, TRUE, TRUE, FALSE)>>)
            /\ UNCHANGED <<cfg, cfgVerF, js, jsVerF>>
     ELSE IF r.exc # ""
       THEN /\ Advance(h, [hd[h] EXCEPT !.cfg = c1, !.js = s1]) /\ Raise
            /\ Feed(<<"Update", h>>, <<EvCop(h, "update", r.exc, FALSE, TRUE, TRUE, FALSE)>>)
            /\ UNCHANGED <<cfg, cfgVerF, js, jsVerF>>
     ELSE \* the config file is written before the job-status version is looked at
          /\ cfg' = r.cfg /\ cfgVerF' = r.verf
          /\ js' = q.js /\ jsVerF' = q.verf
          /\ Advance(h, [hd[h] EXCEPT !.cfg = r.copy, !.wcfg = r.w, !.js = q.copy])
          /\ (IF q.exc # "" THEN Raise ELSE Release)
          /\ Feed(<<"Update", h>>, <<EvCop(h, "update", q.exc, r.cfg # cfg \/ q.js # js, TRUE, TRUE, FALSE)>>)

\* the process is killed inside its operation after CrashAt(h) of the operation's file writes: the version file of an
\* update is written before its data file, so what stays behind is a version file ahead of (never behind) its data
Crash(h) ==
  /\ hd[h].pc <= Len(Scripts[h].ops) /\ Avail(h) /\ Dies(h) /\ (hd[h].loaded \/ Op(h) = "loadp") /\ ~Skippable(h)
  /\ LET k == CrashAt(h)
         isJs == Op(h) = "jsonly"
         isUpd == Op(h) = "update"
         c1 == [hd[h].cfg EXCEPT !.pay = @ + 1]
         r == IF isUpd THEN Ser(h, c1) ELSE [cfg |-> cfg, verf |-> cfgVerF]
         q == IF isUpd THEN SerJs(h, [hd[h].js EXCEPT !.pay = @ + 1]) ELSE [js |-> js, verf |-> jsVerF] IN
     /\ cfgVerF' = IF isJs THEN cfgVerF ELSE cfgVerF + 1
     /\ cfg' = IF isUpd /\ k >= 2 THEN r.cfg ELSE cfg
     /\ jsVerF' = IF isJs \/ (isUpd /\ k >= 3) THEN jsVerF + 1 ELSE jsVerF
     /\ js' = js
  /\ hd' = [hd EXCEPT ![h].pc = Len(Scripts[h].ops) + 1, ![h].role = FALSE]
  /\ lock' = "dead" /\ deadHost' = Host(h)
  /\ Feed(<<"Crash", h>>, <<[e |-> "kill", pid |-> h]>>)

Next == \E h \in H : Skip(h) \/ Abort(h) \/ Blocked(h) \/ Load(h, TRUE) \/ Load(h, FALSE) \/ CfgOp(h) \/ JsOp(h) \/ Update(h)
                      \/ Crash(h) \/ Recreate(h) \/ Wait(h)
Spec == Init /\ [][Next]_vars

View == <<cfg, cfgVerF, js, jsVerF, lock, deadHost, hd, [m EXCEPT !.pos = 0, !.vpos = <<>>, !.cnt = <<>>]>>
Finished == \A h \in H : hd[h].pc > Len(Scripts[h].ops)

\* ---- C10
P_C10 == Holds(m, "C10")
\* at most one handle between a successful promotion and its demotion
\* (among the handles of the current incarnation of the directory)
N_OneRole == Cardinality({h \in H : hd[h].role /\ hd[h].gen = Gen}) <= 1
N_RoleMatchesDisk == \A h \in H : (hd[h].role /\ hd[h].gen = Gen) => cfg.sub = Host(h)
N_VersionFilesAgree == cfg.ver = cfgVerF /\ js.ver = jsVerF
\* with crashes: a version file is never behind its data file (the order of the two writes), and is ahead only after a crash
N_VersionFileNeverBehind == cfgVerF >= cfg.ver /\ jsVerF >= js.ver
N_AheadOnlyAfterCrash == (cfgVerF # cfg.ver \/ jsVerF # js.ver) => m.faulty

DumpBehaviour == (Log /\ Finished) => PrintT(<<"BEHAVIOUR", ToJson([scn |-> Scn.id, path |-> path, elog |-> elog])>>)
=============================================================================
