SPECIFICATION Spec
CONSTANTS
  Mode = "machine"
  Inputs <- Inputs3
INVARIANT M_Safety
INVARIANT M_End
INVARIANT M_NoDeadEnd
INVARIANT M_Depth
INVARIANT M_ErrorOnlyNoLaunch
CHECK_DEADLOCK FALSE
