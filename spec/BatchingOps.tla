---------------------------- MODULE BatchingOps ----------------------------
(* Closed form of one HpcSubmitter._make_batch call (the same scan as Batching.tla's Scan
   steps, as a recursive operator), so that JadeImpl.SubmitBatch can take it in one step.
   Batching.tla checks, for every enumerated input, that the step-wise run and this closed
   form agree (invariant ClosedFormAgrees). *)
EXTENDS Naturals, Sequences, FiniteSets

LOCAL Range(s) == {s[k] : k \in 1..Len(s)}

\* P = [rem |-> [job -> set], est |-> [job -> Nat], tb, tryadd, cap, size, repaired]
RECURSIVE MBScan(_, _, _, _, _, _, _, _, _, _)
MBScan(P, avail, pass, i, hi, cur, curTime, ready, sub, blk) ==
  LET j    == avail[i]
      maxPass == IF P.tryadd THEN Len(avail) ELSE 1
      hi1  == IF i > hi THEN i ELSE hi
      skip == j \in sub
      blocked == P.rem[j] # {} /\ ~(P.tryadd /\ P.rem[j] \subseteq Range(cur))
      fits == ~(P.tb /\ curTime + P.est[j] > P.cap)
      app  == ~skip /\ ~blocked /\ fits
      rej  == ~skip /\ ~blocked /\ ~fits
      cur1 == IF app THEN Append(cur, j) ELSE cur
      sub1 == IF app THEN sub \cup {j} ELSE sub
      blk1 == IF skip THEN blk ELSE IF blocked THEN blk \cup {j} ELSE IF app THEN blk \ {j} ELSE blk
      rdy1 == IF rej THEN TRUE ELSE IF app /\ ~P.tb /\ Len(cur1) >= P.size THEN TRUE ELSE ready
      hi2  == IF rej THEN (IF P.repaired THEN (IF i = hi1 THEN hi1 - 1 ELSE hi1) ELSE hi1 - 1) ELSE hi1
      time1 == IF app /\ P.tb THEN curTime + P.est[j] ELSE curTime
      isDone == ~skip /\ (rdy1 \/ Cardinality(sub1) = Len(avail))
      result == [batch |-> cur1, blocked |-> blk1,
                 rest |-> IF hi2 >= Len(avail) THEN <<>> ELSE SubSeq(avail, hi2 + 1, Len(avail))]
  IN IF isDone THEN result
     ELSE IF i < Len(avail) THEN MBScan(P, avail, pass, i + 1, hi2, cur1, time1, rdy1, sub1, blk1)
     ELSE IF pass < maxPass THEN MBScan(P, avail, pass + 1, 1, hi2, cur1, time1, rdy1, sub1, blk1)
     ELSE result

MakeBatch(P, avail) == MBScan(P, avail, 1, 1, 0, <<>>, 0, FALSE, {}, {})

\* stable sort of a job sequence by estimate (python list.sort)
RECURSIVE InsertByEst(_, _, _)
InsertByEst(s, x, e) ==
  IF s = <<>> THEN <<x>>
  ELSE IF e[Head(s)] <= e[x] THEN <<Head(s)>> \o InsertByEst(Tail(s), x, e)
       ELSE <<x>> \o s
RECURSIVE SortByEst(_, _)
SortByEst(s, e) == IF s = <<>> THEN <<>> ELSE InsertByEst(SortByEst(SubSeq(s, 1, Len(s) - 1), e), s[Len(s)], e)
=============================================================================
