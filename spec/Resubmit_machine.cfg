SPECIFICATION Spec
CONSTANTS
  Mode = "machine"
  MaxN = 3
INVARIANT R_All
CHECK_DEADLOCK FALSE
