SPECIFICATION Spec
CONSTANTS
  Mode = "machine"
  MaxN = 4
INVARIANT R_All
CHECK_DEADLOCK FALSE
