SPECIFICATION PSpec
CONSTANTS
  Scns = {}
  MaxB = 6
  MaxUser = 30
  Monitor = FALSE
  UserCancels = FALSE
  EagerUser = TRUE
  ResubFlags = {}
  MaxResub = 1
  Log = TRUE
  FaultKinds = {}
  MaxFaults = 0
  Fixed = {"F1", "F2", "F9"}
INVARIANT Report
CHECK_DEADLOCK FALSE
