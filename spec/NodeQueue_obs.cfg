SPECIFICATION Spec
CONSTANTS
  Mode = "obs"
  Inputs = {}
INVARIANT Report
POSTCONDITION AllSeen
CHECK_DEADLOCK FALSE
