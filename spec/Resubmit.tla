------------------------------- MODULE Resubmit -------------------------------
(***************************************************************************)
(* Layer (I) for C13: what `jade resubmit-jobs` computes and writes before *)
(* it starts submitting (cli/resubmit_jobs.py, Cluster.prepare_for_        *)
(* resubmission, ResultsAggregator.clear_results_for_resubmission), as     *)
(* pure operators on the abstract state of a completed submission:         *)
(*                                                                         *)
(*   Selected   _get_jobs_to_resubmit: by the flags from the last results  *)
(*              summary (failed + canceled / successful / missing)         *)
(*   Rerun      _update_with_blocking_jobs: closure under "is blocked by   *)
(*              a job of the set" (iterated because a job may be listed    *)
(*              before its blocker)                                        *)
(*   NewBlk     the blockers a rerun job must wait for again: those of its *)
(*              configured blockers that are themselves rerun              *)
(*   Reset      prepare_for_resubmission: states, counters, flag           *)
(*   Pruned     the result rows that stay                                  *)
(*                                                                         *)
(* (machine) TLC enumerates every completed submission over <= MaxN jobs   *)
(* (acyclic blocker relation, outcome per job incl. missing, flags) and    *)
(* checks the properties of the computation; (obs) the same quantities     *)
(* observed on the real command -- the status before, the last summary,    *)
(* the flags; the first status the command writes and the rows on disk     *)
(* then -- are compared with the operators.                                *)
(***************************************************************************)
EXTENDS Naturals, Sequences, FiniteSets, TLC, Json, IOUtils

CONSTANTS Mode, MaxN

ToSet(s) == {s[k] : k \in 1..Len(s)}
Names == <<"A", "B", "C", "D">>
Outcomes == {"successful", "failed", "canceled", "missing"}

\* x : [jobs (set), blk (job -> set), out (job -> outcome), st (job -> 0|1|2 state before), fl ([failed, missing, successful])]
Selected(x) ==
  {j \in x.jobs : \/ (x.fl.failed /\ x.out[j] \in {"failed", "canceled"})
                  \/ (x.fl.successful /\ x.out[j] = "successful")
                  \/ (x.fl.missing /\ x.out[j] = "missing")}
RECURSIVE Closure(_, _)
Closure(x, X) == LET Y == X \cup {j \in x.jobs : x.blk[j] \cap X # {}} IN IF Y = X THEN X ELSE Closure(x, Y)
Rerun(x) == Closure(x, Selected(x))
\* (the operators below take the rerun set as a parameter so that it is computed once per evaluation)
NewBlkR(x, rr) == [j \in x.jobs |-> IF j \in rr THEN x.blk[j] \cap rr ELSE {}]
NewStR(x, rr) == [j \in x.jobs |-> IF j \in rr THEN 0 ELSE x.st[j]]
NSubR(x, rr) == Cardinality({j \in x.jobs : NewStR(x, rr)[j] # 0})
NDoneR(x, rr) == Cardinality({j \in x.jobs \ rr : x.st[j] = 2})
PrunedR(x, rr) == {j \in x.jobs : x.out[j] # "missing"} \ rr
NewBlk(x) == NewBlkR(x, Rerun(x))
NewSt(x) == NewStR(x, Rerun(x))
NSub(x) == NSubR(x, Rerun(x))
NDone(x) == NDoneR(x, Rerun(x))
Pruned(x) == PrunedR(x, Rerun(x))

\* ------------------------------------------------------------------ machine
VARIABLES x, i
vars == <<x, i>>
Obs == IF Mode = "obs" THEN JsonDeserialize(IOEnv.TRACE_FILE) ELSE <<>>
ASSUME TLCSet(1, 0)

RECURSIVE Peel(_, _)
Peel(h, left) == IF left = {} THEN TRUE
                 ELSE LET ready == {j \in left : h[j] \cap left = {}} IN IF ready = {} THEN FALSE ELSE Peel(h, left \ ready)
\* the outcome of a completed submission constrains the states: a job with a result is done; a missing job is either
\* recorded as submitted (its batch died or was never accepted) or was never submitted (forced completion)
Compatible(Js, out, s) == \A j \in Js : (out[j] # "missing") => s[j] = 2
FL == [failed : BOOLEAN, missing : BOOLEAN, successful : BOOLEAN]
\* nested quantifiers: TLC enumerates the inputs one by one instead of building the set
MInit ==
  /\ i = 0
  /\ \E n \in 1..MaxN :
       LET Js == {Names[k] : k \in 1..n} IN
       \E h \in {hh \in [Js -> SUBSET Js] : Peel(hh, Js)} : \E o \in [Js -> Outcomes] : \E f \in FL :
         \E st \in {ss \in [Js -> {0, 1, 2}] : Compatible(Js, o, ss)} :
           x = [jobs |-> Js, blk |-> h, out |-> o, st |-> st, fl |-> f]

\* the properties of the computation, over (x, sel = Selected(x), rr = Rerun(x)) so that TLC computes the closure once
\* what the command is for: exactly the selected jobs and everything downstream of them
P_SelectedRerun(y, sel, rr) == sel \subseteq rr
P_Closed(y, sel, rr) == \A j \in y.jobs : y.blk[j] \cap rr # {} => j \in rr
P_Least(y, sel, rr) == \A j \in rr \ sel : y.blk[j] \cap rr # {}
\* dependency order among the rerun jobs is kept: a rerun job waits again for every rerun blocker
P_WaitsForRerunBlockers(y, sel, rr) == \A j \in rr : NewBlkR(y, rr)[j] = y.blk[j] \cap rr
\* untouched jobs keep state and result; rerun jobs lose theirs
P_UntouchedKept(y, sel, rr) == \A j \in y.jobs \ rr : NewStR(y, rr)[j] = y.st[j] /\ (y.out[j] # "missing" => j \in PrunedR(y, rr))
P_RerunCleared(y, sel, rr) == \A j \in rr : NewStR(y, rr)[j] = 0 /\ j \notin PrunedR(y, rr)
P_Counters(y, sel, rr) == NDoneR(y, rr) <= NSubR(y, rr) /\ NSubR(y, rr) <= Cardinality(y.jobs)
                          /\ NDoneR(y, rr) = Cardinality({j \in y.jobs : NewStR(y, rr)[j] = 2})
\* every blocker a rerun job no longer waits for has an outcome on disk -- holds when missing jobs are selected; without
\* --missing it does not (known finding K2): configuration Resubmit_k2.cfg shows TLC's counterexample
P_DroppedBlockersHaveOutcome(y, sel, rr) == \A j \in rr : \A k \in y.blk[j] \ rr : y.out[k] # "missing"

Violated(y) ==
  LET sel == Selected(y)
      rr == Closure(y, sel) IN
  (IF P_SelectedRerun(y, sel, rr) THEN {} ELSE {"SelectedRerun"})
  \cup (IF P_Closed(y, sel, rr) THEN {} ELSE {"Closed"})
  \cup (IF P_Least(y, sel, rr) THEN {} ELSE {"Least"})
  \cup (IF P_WaitsForRerunBlockers(y, sel, rr) THEN {} ELSE {"WaitsForRerunBlockers"})
  \cup (IF P_UntouchedKept(y, sel, rr) THEN {} ELSE {"UntouchedKept"})
  \cup (IF P_RerunCleared(y, sel, rr) THEN {} ELSE {"RerunCleared"})
  \cup (IF P_Counters(y, sel, rr) THEN {} ELSE {"Counters"})
  \cup (IF y.fl.missing => P_DroppedBlockersHaveOutcome(y, sel, rr) THEN {} ELSE {"DroppedBlockersHaveOutcome"})
R_All == Mode = "machine" => Violated(x) = {}
R_DroppedBlockersHaveOutcomeAlways == Mode = "machine" => P_DroppedBlockersHaveOutcome(x, Selected(x), Rerun(x))

\* ------------------------------------------------------------------ observations of the real command
\* o.jobs (sequence), o.blk (job -> sequence), o.out (job -> outcome), o.st (job -> state before), o.fl;
\* observed: o.st2, o.rem2 (job -> sequence), o.nsub2, o.ndone2, o.complete2, o.rows2 (names with a result row after the reset)
NormX(o) == [jobs |-> ToSet(o.jobs), blk |-> [j \in ToSet(o.jobs) |-> ToSet(o.blk[j])], out |-> o.out, st |-> o.st, fl |-> o.fl]
Verdict(o) ==
  LET y == NormX(o)
      rr == Rerun(y) IN
  (IF \A j \in y.jobs : (o.st2[j] = 0 /\ j \in rr) \/ (o.st2[j] = y.st[j] /\ j \notin rr) THEN {} ELSE {"ResetExactlyRerun"})
  \cup (IF \A j \in rr : ToSet(o.rem2[j]) = NewBlkR(y, rr)[j] THEN {} ELSE {"RerunWaitsForRerunBlockers"})
  \cup (IF ToSet(o.rows2) = PrunedR(y, rr) THEN {} ELSE {"ResultsPrunedExactly"})
  \cup (IF o.nsub2 = NSubR(y, rr) /\ o.ndone2 = NDoneR(y, rr) /\ ~o.complete2 THEN {} ELSE {"CountersAfterReset"})

OInit == x = <<>> /\ i \in 1..Len(Obs)
Init == IF Mode = "machine" THEN MInit ELSE OInit
Next == UNCHANGED vars
Spec == Init /\ [][Next]_vars
Report == Mode = "obs" =>
            /\ TLCSet(1, TLCGet(1) + 1)
            /\ PrintT(<<"VERDICT", ToJson([id |-> Obs[i].id, viol |-> Verdict(Obs[i])])>>)
AllSeen == Mode = "obs" => TLCGet(1) = Len(Obs)
=============================================================================
