------------------------------- MODULE Slurm -------------------------------
(***************************************************************************)
(* C18: the SLURM boundary (hpc/slurm_manager.py, utils/run_command.py,    *)
(* hpc/hpc_submitter.py AsyncHpcSubmitter.is_complete).                    *)
(*  (1) Retry: run_command(num_retries=r) as a state machine -- one        *)
(*      Attempt(o) per execution of the command, o in {ok, transient,      *)
(*      permanent}; TLC explores every outcome sequence for r = 0..6.      *)
(*  (2) Operators for the submission script, the status decision and the   *)
(*      submit-response parser.                                            *)
(*  (3) Validation of observations recorded from the real code.            *)
(***************************************************************************)
EXTENDS Naturals, Integers, Sequences, FiniteSets, TLC, Json, IOUtils

CONSTANTS MaxRetries, Mode

ToSet(s) == {s[k] : k \in 1..Len(s)}
Outcomes == {"ok", "transient", "permanent"}
Rc(o) == CASE o = "ok" -> 0 [] o = "transient" -> 1 [] OTHER -> 2

\* ------------------------------------------------------------------ (1) the retry machine
VARIABLES r, listed, hist, stopped, i
vars == <<r, listed, hist, stopped, i>>
Obs == IF Mode = "obs" THEN JsonDeserialize(IOEnv.TRACE_FILE) ELSE <<>>
ASSUME TLCSet(1, 0)

\* does the loop end after an execution with outcome o that was the n-th one?
StopsAfter(rr, lst, n, o) == o = "ok" \/ n = rr + 1 \/ (o = "permanent" /\ lst /\ rr > 0)

MInit == r \in 0..MaxRetries /\ listed \in BOOLEAN /\ hist = <<>> /\ stopped = FALSE /\ i = 0
Attempt(o) == /\ ~stopped
              /\ hist' = Append(hist, o)
              /\ stopped' = StopsAfter(r, listed, Len(hist) + 1, o)
              /\ UNCHANGED <<r, listed, i>>
MNext == \E o \in Outcomes : Attempt(o)
\* at most retries + 1 executions; nothing is executed after a success or a listed permanent error
RetryBound == Len(hist) <= r + 1
StopsAtFirstSuccess == \A k \in 1..(Len(hist) - 1) : hist[k] # "ok" /\ ~(hist[k] = "permanent" /\ listed /\ r > 0)
EndsWhenExhausted == (Len(hist) = r + 1) => stopped
ResultIsLastAttempt == stopped => hist # <<>>

\* how many executions a planned outcome sequence leads to, and the returned code
RECURSIVE Execs(_, _, _, _)
Execs(rr, lst, outs, n) == IF StopsAfter(rr, lst, n, outs[n]) THEN n ELSE Execs(rr, lst, outs, n + 1)

\* ------------------------------------------------------------------ (2) script, status decision, submit response
Optional == {"gres", "mem", "nodes", "ntasks", "ntasks_per_node", "partition", "qos", "tmp", "reservation"}
ValueOf(p) == CASE p = "gres" -> "gpu:2" [] p = "mem" -> "5000" [] p = "nodes" -> "2" [] p = "ntasks" -> "3"
                [] p = "ntasks_per_node" -> "4" [] p = "partition" -> "debug" [] p = "qos" -> "high" [] p = "tmp" -> "10G"
                [] OTHER -> "res1"
\* SlurmConfig.handle_nodes_and_tasks: with none of nodes/ntasks/ntasks_per_node given, nodes = 1
Directives(o) ==
  LET set == ToSet(o.set)
      opt == {<<p, ValueOf(p)>> : p \in set}
      dflt == IF set \cap {"nodes", "ntasks", "ntasks_per_node"} = {} THEN {<<"nodes", "1">>} ELSE {}
  IN {<<"account", o.account>>, <<"job_name", o.name>>, <<"time", o.walltime>>,
      <<"output", o.path \o "/job_output_%j.o">>, <<"error", o.path \o "/job_output_%j.e">>} \cup opt \cup dflt

Terminal == {"BOOT_FAIL", "CANCELLED", "COMPLETED", "COMPLETING", "DEADLINE", "FAILED", "NODE_FAIL", "OUT_OF_MEMORY", "PREEMPTED",
             "TIMEOUT", "REVOKED", "SPECIAL_EXIT"}

ExpectedSubmit(cls) == CASE cls = "ok" -> <<"good", "123">> [] cls = "ok_extra" -> <<"good", "45">>
                         [] OTHER -> <<"error", "">>

\* ------------------------------------------------------------------ (3) observations
RetryVerdict(o) ==
  LET n == Execs(o.r, o.listed, o.outs, 1) IN
  (IF o.execs <= o.r + 1 THEN {} ELSE {"RetryBound"})
  \cup (IF o.execs = n THEN {} ELSE {"StopsAtFirstSuccessOrPermanent"})
  \cup (IF o.execs >= 1 /\ o.execs <= Len(o.outs) /\ o.ret = Rc(o.outs[o.execs]) THEN {} ELSE {"ResultIsLastAttempt"})
ScriptVerdict(o) ==
  LET got == {<<o.lines[k][1], o.lines[k][2]>> : k \in 1..Len(o.lines)} IN
  (IF got = Directives(o) THEN {} ELSE {"ScriptDirectivesExact"})
  \cup (IF Len(o.lines) = Cardinality(got) THEN {} ELSE {"ScriptDirectiveOnce"})
  \cup (IF o.srun = o.script THEN {} ELSE {"ScriptRunsRunScript"})
StatusVerdict(o) ==
  LET present == {k \in 1..Len(o.rows) : o.rows[k][1] = o.query}
      st == IF present = {} THEN "absent" ELSE o.rows[CHOOSE k \in present : TRUE][2]
  IN (IF o.treated => (st = "absent" \/ st \in Terminal) THEN {} ELSE {"ActiveNeverFinished"})
     \cup (IF o.parsed = Len(o.rows) THEN {} ELSE {"StatusRowsParsed"})
\* the whole path against a scheduler that interprets the squeue command line (harness: funcs.squeue_sim): what counts is
\* what the scheduler HOLDS (o.rows), not what a filtered listing shows
StatusCmdVerdict(o) ==
  LET present == {k \in 1..Len(o.rows) : o.rows[k][1] = o.query}
      st == IF present = {} THEN "absent" ELSE o.rows[CHOOSE k \in present : TRUE][2]
      final == st = "absent" \/ st \in Terminal
  IN (IF (o.treated \/ o.single \in {"none", "complete"}) => final THEN {} ELSE {"ActiveNeverFinished"})
     \cup (IF o.errA = "" /\ o.errB = "" THEN {} ELSE {"StatusRowsParsed"})
\* one round asking for several tracked batches through one status collector; the status query may be failing: without an
\* answer from the scheduler no batch may be taken for finished (and an error is acceptable only then)
StatusMultiVerdict(o) ==
  LET St(qid) == LET present == {k \in 1..Len(o.rows) : o.rows[k][1] = qid}
                 IN IF present = {} THEN "absent" ELSE o.rows[CHOOSE k \in present : TRUE][2]
      Final(qid) == o.nfail = 0 /\ (St(qid) = "absent" \/ St(qid) \in Terminal)
  IN (IF \A k \in 1..Len(o.results) : o.results[k][2] => Final(o.results[k][1]) THEN {} ELSE {"ActiveNeverFinished"})
     \cup (IF o.nfail = 0 => (o.err = "" /\ Len(o.results) = Len(o.queries)) THEN {} ELSE {"StatusRowsParsed"})
SubmitVerdict(o) == IF <<o.result, o.jobid>> = ExpectedSubmit(o.cls) THEN {} ELSE {"SubmitResponseParsed"}
Verdict(o) == CASE o.kind = "retry" -> RetryVerdict(o) [] o.kind = "script" -> ScriptVerdict(o)
                [] o.kind = "squeue" -> StatusVerdict(o) [] o.kind = "squeuecmd" -> StatusCmdVerdict(o) [] o.kind = "squeuemulti" -> StatusMultiVerdict(o)
                [] OTHER -> SubmitVerdict(o)

OInit == r = 0 /\ listed = FALSE /\ hist = <<>> /\ stopped = TRUE /\ i \in 1..Len(Obs)
Init == IF Mode = "machine" THEN MInit ELSE OInit
Next == IF Mode = "machine" THEN MNext ELSE UNCHANGED vars
Spec == Init /\ [][Next]_vars
Report == Mode = "obs" =>
            /\ TLCSet(1, TLCGet(1) + 1)
            /\ PrintT(<<"VERDICT", ToJson([id |-> Obs[i].id, viol |-> Verdict(Obs[i])])>>)
AllSeen == Mode = "obs" => TLCGet(1) = Len(Obs)
=============================================================================
