-------------------------- MODULE PipelineMonitor --------------------------
(* Layer (M) for C15: observable events of a pipeline directory (pipeline.json and the
   submission directories output-stage1..n) and the pipeline property, as a pure fold.
   Events (fields observed, never guessed):
     create   stage k's submission was configured and submitted (Cluster.create in output-stage<k>)
     status   a readable status of stage k: complete flag
     activity a batch of stage k was handed to the HPC or a job of stage k was started
     summary  stage k's results.json: number of missing jobs
     pipeline pipeline.json was written: stage_num, is_complete, per-stage return codes (-1 = unset)
     autoconfig stage k's auto-config command runs: the stage id in its environment, and what the pipeline status file it
              is pointed to says at that moment (stage_num, per-stage return codes), its exit code
     fault    an injected fault (kill / failed command)
     end      the run is over *)
EXTENDS Naturals, Integers, Sequences, FiniteSets, TLC

PInit(S) ==
  [ pos |-> 0, viol |-> {}, vpos |-> [x \in {} |-> 0], cnt |-> [x \in {} |-> 0],
    created |-> [k \in 1..S.n |-> 0], configured |-> [k \in 1..S.n |-> 0], complete |-> [k \in 1..S.n |-> FALSE], missing |-> [k \in 1..S.n |-> -1],
    pstage |-> 0, pcomplete |-> FALSE, prcs |-> <<>>, faulty |-> FALSE ]

Bump(m, c) == [m EXCEPT !.cnt = IF c \in DOMAIN @ THEN [@ EXCEPT ![c] = @ + 1] ELSE @ @@ (c :> 1)]
Check(m, c, ante, ok) ==
  IF ~ante THEN m
  ELSE LET m1 == Bump(m, c) IN
       IF ok THEN m1 ELSE [m1 EXCEPT !.viol = @ \cup {c}, !.vpos = IF c \in DOMAIN @ THEN @ ELSE @ @@ (c :> m.pos)]

PrevComplete(m, k) == k = 1 \/ m.complete[k - 1]
MaxCreated(S, m) == LET C == {k \in 1..S.n : m.created[k] > 0} IN IF C = {} THEN 0 ELSE CHOOSE k \in C : \A x \in C : x <= k
ExpectedRc(m, k) == IF m.missing[k] = 0 THEN 0 ELSE 1

PStep(S, m0, e) ==
  LET m == [m0 EXCEPT !.pos = @ + 1]
      inr == e.e \in {"create", "status", "activity", "summary", "autoconfig"} => e.k \in 1..S.n
  IN
  IF ~inr THEN [m EXCEPT !.viol = @ \cup {"StageKnown"}]
  ELSE CASE e.e = "create" ->
         LET a == Check(m, "StageAfterPrevComplete", TRUE, PrevComplete(m, e.k))
             b == Check(a, "StageSubmittedOnce", TRUE, m.created[e.k] = 0)
             c == Check(b, "StagesInOrder", TRUE, e.k = MaxCreated(S, m) + 1)
             d == Check(c, "CurrentStageRecorded", TRUE, m.pstage = e.k)
             \* stage k is configured when it is its turn: it runs the jobs its configuration names *then* (a file that an
             \* earlier stage rewrote is read after that stage, not when the pipeline was submitted)
             f == Check(d, "StageRunsCurrentConfig", "stagejobs" \in DOMAIN S /\ Len(S.stagejobs) = S.n, e.jobs = S.stagejobs[e.k])
         IN [f EXCEPT !.created[e.k] = @ + 1]
    [] e.e = "activity" ->
         LET a == Check(m, "StageAfterPrevComplete", TRUE, PrevComplete(m, e.k))
             b == Check(a, "ActivityInCreatedStage", TRUE, m.created[e.k] = 1)
         IN b
    [] e.e = "status" -> [m EXCEPT !.complete[e.k] = @ \/ e.complete]
    [] e.e = "summary" -> [m EXCEPT !.missing[e.k] = e.nmissing]
    [] e.e = "pipeline" ->
         LET a == Check(m, "StageNumMonotone", TRUE, e.stage >= m.pstage /\ e.stage <= S.n + 1)
             \* the recorded current stage moves on only after the previous stage's submission is complete
             b == Check(a, "StageAdvancesAfterComplete", e.stage > 1 /\ e.stage > m.pstage, e.stage = m.pstage + 1 /\ (e.stage - 1) \in 1..S.n /\ m.complete[e.stage - 1])
             \* return codes of finished stages match what happened; later ones are unset
             c == Check(b, "ReturnCodesMatch", Len(e.rcs) = S.n,
                        \A k \in 1..S.n : IF k < e.stage THEN (m.missing[k] >= 0 /\ e.rcs[k] = ExpectedRc(m, k)) ELSE e.rcs[k] = -1)
             d == Check(c, "PipelineCompleteLast", e.complete, e.stage = S.n + 1 /\ \A k \in 1..S.n : m.complete[k])
             f == Check(d, "PipelineCompleteSticky", m.pcomplete, e.complete)
         IN [f EXCEPT !.pstage = e.stage, !.pcomplete = e.complete, !.prcs = e.rcs]
    [] e.e = "autoconfig" ->
         \* stage k is configured only after stage k-1 is complete, once, and what is recorded at that moment -- which the
         \* command is given to read -- is what happened: current stage k, the return codes of the stages before it
         LET a == Check(m, "StageAfterPrevComplete", TRUE, PrevComplete(m, e.k))
             b == Check(a, "StageConfiguredOnce", TRUE, m.configured[e.k] = 0 /\ m.created[e.k] = 0)
             c == Check(b, "CurrentStageRecorded", TRUE, e.envstage = e.k /\ e.stage = e.k /\ m.pstage = e.k)
             d == Check(c, "ReturnCodesMatch", Len(e.rcs) = S.n,
                        \A k \in 1..S.n : IF k < e.k THEN (m.missing[k] >= 0 /\ e.rcs[k] = ExpectedRc(m, k)) ELSE e.rcs[k] = -1)
         IN [d EXCEPT !.configured[e.k] = @ + 1, !.faulty = @ \/ e.rc # 0]
    [] e.e = "fault" -> [m EXCEPT !.faulty = TRUE]
    [] e.e = "end" ->
         LET a == Check(m, "PipelineCompletes", ~m.faulty, m.pcomplete /\ \A k \in 1..S.n : m.created[k] = 1 /\ m.complete[k])
         IN a
    [] OTHER -> m

C15Clauses == {"StageKnown", "StageAfterPrevComplete", "StageSubmittedOnce", "StagesInOrder", "CurrentStageRecorded",
               "ActivityInCreatedStage", "StageNumMonotone", "StageAdvancesAfterComplete", "ReturnCodesMatch",
               "PipelineCompleteLast", "PipelineCompleteSticky", "PipelineCompletes", "StageConfiguredOnce",
               "StageRunsCurrentConfig"}
=============================================================================
