SPECIFICATION Spec
INVARIANT Report
POSTCONDITION AllSeen
CHECK_DEADLOCK FALSE
