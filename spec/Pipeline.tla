------------------------------- MODULE Pipeline -------------------------------
(***************************************************************************)
(* Layer (I) for C15: jobs/pipeline_manager.py (create, submit_next_stage, *)
(* _submit_next_stage, _run_auto_config) and the hand-over at the end of   *)
(* a stage's submission (JobSubmitter._handle_completion -> `jade pipeline *)
(* submit-next-stage --stage-num=k+1 --return-code=rc`).                   *)
(*                                                                         *)
(* Given the pipeline's shape (n stages, configured by files or by         *)
(* auto-config commands, possibly one failing auto-config) and what each   *)
(* stage's submission ends with (number of missing jobs), the manager is   *)
(* deterministic: Expected(x) is the sequence of observable events it      *)
(* produces, in the order of the code:                                     *)
(*   create: copy the config, serialize             -> pipeline(1, .., -1) *)
(*   stage k: [auto-config k: it reads the status file: stage k, return    *)
(*            codes of the stages before] ; run_submit_jobs -> create(k)   *)
(*   ... the stage runs (activity is not part of this model) ...           *)
(*   completion of stage k: summary(k), completion flag -> status(k)       *)
(*   submit-next-stage(k+1, rc_k): record rc_k, stage_num + 1, [complete   *)
(*            if that was the last], serialize      -> pipeline(k+1, ..)   *)
(* (machine) TLC enumerates every shape up to MaxN stages and every        *)
(* outcome and checks that the event sequence satisfies PipelineMonitor    *)
(* (and ends complete when no auto-config fails); (obs) the events of      *)
(* recorded pipeline runs of the real code, without the batches' activity, *)
(* are compared with Expected.                                             *)
(***************************************************************************)
EXTENDS PipelineMonitor, Json, IOUtils

CONSTANTS Mode, MaxN

\* x : [n, auto (BOOLEAN), fail (0 or the stage whose auto-config command exits 1), miss (sequence: missing jobs at the end of
\*      each stage's submission)]
Rc(x, k) == IF x.miss[k] = 0 THEN 0 ELSE 1
Rcs(x, upto) == [k \in 1..x.n |-> IF k <= upto THEN Rc(x, k) ELSE -1]
EvPipeline(x, stage) == [e |-> "pipeline", stage |-> stage, complete |-> (stage = x.n + 1), rcs |-> Rcs(x, stage - 1)]

RECURSIVE StageFrom(_, _)
StageFrom(x, k) ==
  IF k > x.n THEN <<>>
  ELSE LET cfgd == IF x.auto
                     THEN <<[e |-> "autoconfig", k |-> k, envstage |-> k, stage |-> k, rcs |-> Rcs(x, k - 1),
                             rc |-> IF x.fail = k THEN 1 ELSE 0]>>
                     ELSE <<>>
       IN IF x.auto /\ x.fail = k THEN cfgd          \* ExecutionError: the stage is never submitted, the pipeline stops
          ELSE cfgd \o << [e |-> "create", k |-> k],
                          [e |-> "summary", k |-> k, nmissing |-> x.miss[k]],
                          [e |-> "status", k |-> k, complete |-> TRUE],
                          EvPipeline(x, k + 1) >>
               \o StageFrom(x, k + 1)
Expected(x) == <<EvPipeline(x, 1)>> \o StageFrom(x, 1)

RECURSIVE Fold(_, _, _)
Fold(S, m, es) == IF es = <<>> THEN m ELSE Fold(S, PStep(S, m, Head(es)), Tail(es))
MonitorOf(x) == Fold([id |-> "m", n |-> x.n], PInit([id |-> "m", n |-> x.n]), Expected(x) \o <<[e |-> "end"]>>)

\* ------------------------------------------------------------------ machine
VARIABLES x, i
vars == <<x, i>>
Obs == IF Mode = "obs" THEN JsonDeserialize(IOEnv.TRACE_FILE) ELSE <<>>
ASSUME TLCSet(1, 0)

MInit ==
  /\ i = 0
  /\ \E n \in 1..MaxN : \E a \in BOOLEAN : \E f \in 0..n : \E ms \in [1..n -> {0, 1, 2}] :
       /\ (f # 0 => a /\ f >= 2)
       /\ x = [n |-> n, auto |-> a, fail |-> f, miss |-> ms]
\* the manager's own behaviour satisfies every clause of the pipeline monitor
P_MonitorClean == Mode = "machine" => MonitorOf(x).viol = {}
\* ... and (nothing failing) ends with the pipeline complete, every stage submitted exactly once, in order
P_Completes == (Mode = "machine" /\ x.fail = 0) =>
                  LET mm == MonitorOf(x) IN mm.pcomplete /\ \A k \in 1..x.n : mm.created[k] = 1 /\ mm.complete[k]
\* a failing auto-config leaves the pipeline at that stage, with the earlier return codes recorded
P_StopsAtFailure == (Mode = "machine" /\ x.fail # 0) =>
                      LET mm == MonitorOf(x) IN ~mm.pcomplete /\ mm.pstage = x.fail /\ mm.created[x.fail] = 0

\* ------------------------------------------------------------------ observations
\* o.n, o.auto, o.fail, o.miss (as observed: summary events), o.ev (pipeline / autoconfig / create / summary / first
\* complete status per stage, in order)
Verdict(o) ==
  LET y == [n |-> o.n, auto |-> o.auto, fail |-> o.fail, miss |-> o.miss]
      want == Expected(y)
      \* the run may have been cut short by the driver's bound on recovery rounds: a prefix is what can be compared then
      cmp == IF o.cut THEN (Len(o.ev) <= Len(want) /\ SubSeq(want, 1, Len(o.ev)) = o.ev) ELSE want = o.ev
  IN IF cmp THEN {} ELSE {"PipelineFollowsManager"}

OInit == x = <<>> /\ i \in 1..Len(Obs)
Init == IF Mode = "machine" THEN MInit ELSE OInit
Next == UNCHANGED vars
Spec == Init /\ [][Next]_vars
Report == Mode = "obs" =>
            /\ TLCSet(1, TLCGet(1) + 1)
            /\ PrintT(<<"VERDICT", ToJson([id |-> Obs[i].id, viol |-> Verdict(Obs[i])])>>)
AllSeen == Mode = "obs" => TLCGet(1) = Len(Obs)
=============================================================================
