SPECIFICATION Spec
CONSTANTS
  N = 3
  Ext = 0
  MaxEst = 2
  MaxCapExtra = 2
  Repaired = TRUE
  DumpInputs = FALSE
INVARIANT NoDoublePlacement
INVARIANT Admissible
INVARIANT NodesOk
INVARIANT NoIdleLeftover
INVARIANT BlockedReportSound
INVARIANT SubmittedListConsistent
INVARIANT ClosedFormAgrees
PROPERTY Terminates
CHECK_DEADLOCK FALSE
