------------------------------ MODULE PipeTrace ------------------------------
(* Trace validation of recorded pipeline runs against PipelineMonitor (same batch idiom as MonTrace). *)
EXTENDS PipelineMonitor, Json, IOUtils, TLCExt
Traces == JsonDeserialize(IOEnv.TRACE_FILE)
ASSUME TLCSet(1, 0)
VARIABLES tid, l, m
vars == <<tid, l, m>>
Init == tid \in 1..Len(Traces) /\ l = 0 /\ m = PInit(Traces[tid].scn)
Next == /\ l < Len(Traces[tid].ev) /\ l' = l + 1 /\ tid' = tid
        /\ m' = PStep(Traces[tid].scn, m, Traces[tid].ev[l + 1])
Spec == Init /\ [][Next]_vars
Report == (l = Len(Traces[tid].ev)) =>
            /\ TLCSet(1, TLCGet(1) + 1)
            /\ PrintT(<<"VERDICT", ToJson([tid |-> tid, id |-> Traces[tid].scn.id, viol |-> m.viol, vpos |-> m.vpos, cnt |-> m.cnt])>>)
AllConsumed == TLCGet(1) = Len(Traces)
C15 == m.viol \cap C15Clauses = {}
=============================================================================
