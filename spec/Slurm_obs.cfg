SPECIFICATION Spec
CONSTANTS
  MaxRetries = 0
  Mode = "obs"
INVARIANT Report
POSTCONDITION AllSeen
CHECK_DEADLOCK FALSE
