------------------------------ MODULE NodeQueue ------------------------------
(***************************************************************************)
(* Layer (I), one compute node: jobs/job_queue.py JobQueue as used by      *)
(* JobRunner (run: submit every job of the batch, then wait: process_queue *)
(* / sleep until nothing is outstanding or queued), with                   *)
(* jobs/async_cli_command.py AsyncCliCommand as the job object.            *)
(*                                                                         *)
(* State and steps follow the code:                                        *)
(*   SubmitAll   `for job in jobs: self.submit(job)`  (full -> queue,       *)
(*               blocked -> queue, else run)                               *)
(*   Scan        ONE iteration of `while need_to_rerun` in                 *)
(*               _check_completions: poll every outstanding job, then per  *)
(*               completed name (in the order of the OrderedDict) pop it   *)
(*               and walk the queue: a flagged job with a failed blocker   *)
(*               is canceled (blockers cleared, cancel(), appended to the  *)
(*               outstanding jobs, popped from the queue after the walk);  *)
(*               otherwise the name is removed from the job's blockers.    *)
(*               failed_jobs accumulates over the iterations of one call.  *)
(*   Start       the second half of process_queue: unblocked queued jobs   *)
(*               are started, in queue order, into the free slots          *)
(*   Exit(j)     the environment: a running job's process exits -- at any  *)
(*               moment, in particular between two Scan iterations of the  *)
(*               same call                                                 *)
(* The grain is finer than JadeImpl's NodePoll (which takes the whole      *)
(* fixpoint as one step with one set of exited jobs).                      *)
(*                                                                         *)
(* Two uses: (machine) TLC explores every input of the configured size     *)
(* and every placement of the exits, checking the node-level clauses of    *)
(* C02 / C04 / C06 as invariants; (obs) observations of the real JobQueue  *)
(* + AsyncCliCommand, driven along every exit schedule, are compared with  *)
(* Run(in, sched) and judged by the same clauses.                          *)
(***************************************************************************)
EXTENDS Naturals, Sequences, FiniteSets, TLC, Json, IOUtils

CONSTANTS Mode,      \* "machine" | "obs"
          Inputs     \* machine mode: the set of inputs explored

ToSet(s) == {s[k] : k \in 1..Len(s)}
Remove(s, x) == SelectSeq(s, LAMBDA y : y # x)

\* ------------------------------------------------------------------ the queue, as pure steps on a record
\* in : [jobs (listing order of the batch), hb (blockers handed over with the batch), flag, rc, depth,
\*       nolaunch (jobs whose command cannot be started: Popen raises -- the exception leaves the queue, the runner dies)]
\* q  : [queue, outst (order of the OrderedDict), nrem, run (started, process alive or exited but not yet seen),
\*       exited (process exited, not yet seen by the queue), canc (canceled, sitting in outst), failed (failed_jobs of the
\*       current _check_completions call), pc, ev]
\* events: <<"start", j, live>>, <<"result", j>> (the exit of j's process is seen, its result row is written),
\*         <<"cancel", j>> (canceled row written), <<"done", j>> (j leaves the outstanding jobs)
InitQ(in) == [queue |-> <<>>, outst |-> <<>>, nrem |-> in.hb, run |-> {}, exited |-> {}, canc |-> {}, failed |-> {},
              pc |-> "submit", ev |-> <<>>]

RunJobIn(in, q, j) ==
  IF j \in in.nolaunch THEN [q EXCEPT !.pc = "error"]
  ELSE [q EXCEPT !.outst = Append(@, j), !.run = @ \cup {j}, !.ev = Append(@, <<"start", j, Len(q.outst) + 1>>)]

RECURSIVE SubmitFrom(_, _, _)
SubmitFrom(in, q, k) ==
  IF q.pc = "error" THEN q
  ELSE IF k > Len(in.jobs) THEN [q EXCEPT !.pc = "scan"]
  ELSE LET j == in.jobs[k] IN
       IF Len(q.outst) >= in.depth \/ q.nrem[j] # {}
         THEN SubmitFrom(in, [q EXCEPT !.queue = Append(@, j)], k + 1)
         ELSE SubmitFrom(in, RunJobIn(in, q, j), k + 1)
SubmitAll(in) == SubmitFrom(in, InitQ(in), 1)

\* the loop condition of wait(): nothing outstanding and nothing queued -> the queue is finished
Settle(q) == IF q.pc # "error" /\ q.outst = <<>> /\ q.queue = <<>> THEN [q EXCEPT !.pc = "done"] ELSE q

\* walk the queue for one completed name; acc = [queue (unchanged during the walk), nrem, cancels (seq)]
RECURSIVE Walk(_, _, _, _, _)
Walk(in, name, failed, acc, i) ==
  IF i > Len(acc.queue) THEN acc
  ELSE LET j == acc.queue[i] IN
       IF acc.nrem[j] = {} THEN Walk(in, name, failed, acc, i + 1)
       ELSE IF in.flag[j] /\ acc.nrem[j] \cap failed # {}
         THEN Walk(in, name, failed, [acc EXCEPT !.nrem[j] = {}, !.cancels = Append(@, j)], i + 1)
       ELSE IF name \in acc.nrem[j]
         THEN Walk(in, name, failed, [acc EXCEPT !.nrem[j] = @ \ {name}], i + 1)
       ELSE Walk(in, name, failed, acc, i + 1)

RECURSIVE PerName(_, _, _, _)
PerName(in, completed, failed, q) ==
  IF completed = <<>> THEN q
  ELSE LET name == Head(completed)
           q1 == [q EXCEPT !.outst = Remove(@, name), !.ev = Append(@, <<"done", name>>)]
           w == Walk(in, name, failed, [queue |-> q1.queue, nrem |-> q1.nrem, cancels |-> <<>>], 1)
           q2 == [q1 EXCEPT !.nrem = w.nrem,
                            !.queue = SelectSeq(@, LAMBDA j : j \notin ToSet(w.cancels)),
                            !.outst = @ \o w.cancels,
                            !.canc = @ \cup ToSet(w.cancels),
                            !.ev = @ \o [k \in 1..Len(w.cancels) |-> <<"cancel", w.cancels[k]>>]]
       IN PerName(in, Tail(completed), failed, q2)

\* one iteration of `while need_to_rerun`
Scan(in, q) ==
  LET completed == SelectSeq(q.outst, LAMBDA j : j \in q.exited \/ j \in q.canc)
      failed1 == q.failed \cup {j \in ToSet(completed) : j \in q.canc \/ in.rc[j] # 0}
      \* polling phase: is_complete() of a job whose process has exited records its result (AsyncCliCommand._complete)
      seen == SelectSeq(completed, LAMBDA j : j \notin q.canc)
      q1 == PerName(in, completed, failed1,
                    [q EXCEPT !.failed = failed1, !.run = @ \ ToSet(completed), !.exited = @ \ ToSet(completed),
                              !.canc = @ \ ToSet(completed),
                              !.ev = @ \o [k \in 1..Len(seen) |-> <<"result", seen[k]>>]])
      rerun == q1.canc # {}
  IN IF rerun THEN q1 ELSE [q1 EXCEPT !.pc = "start", !.failed = {}]

RECURSIVE StartFrom(_, _, _, _)
StartFrom(in, q, i, left) ==
  IF q.pc = "error" \/ left = 0 \/ i > Len(q.queue) THEN q
  ELSE LET j == q.queue[i] IN
       IF q.nrem[j] # {} THEN StartFrom(in, q, i + 1, left)
       ELSE StartFrom(in, [RunJobIn(in, q, j) EXCEPT !.queue = Remove(@, j)], i, left - 1)
Start(in, q) ==
  LET avail == in.depth - Len(q.outst)
      q1 == IF q.queue = <<>> \/ avail <= 0 THEN q ELSE StartFrom(in, q, 1, avail)
  IN IF q1.pc = "error" THEN q1 ELSE Settle([q1 EXCEPT !.pc = "scan"])

ExitJobs(q, X) == [q EXCEPT !.exited = @ \cup (X \cap q.run)]

\* the deterministic run along a schedule: sched[k] = the jobs whose processes exit right before the k-th Scan
RECURSIVE RunFrom(_, _, _)
RunFrom(in, q, sched) ==
  IF q.pc \in {"done", "error"} THEN q
  ELSE IF q.pc = "start" THEN RunFrom(in, Start(in, q), sched)
  ELSE IF sched = <<>> THEN [q EXCEPT !.pc = "more"]        \* the schedule ends before the queue does
  ELSE RunFrom(in, Scan(in, ExitJobs(q, ToSet(Head(sched)))), Tail(sched))
Run(in, sched) == RunFrom(in, Settle(SubmitAll(in)), sched)

\* ------------------------------------------------------------------ the reference (C03/C04): outcomes by DAG order
RECURSIVE RefOf(_, _, _)
RefOf(in, done, left) ==      \* done: [job -> outcome] built in dependency order
  IF left = {} THEN done
  ELSE LET ready == {j \in left : in.hb[j] \subseteq DOMAIN done}
           j == CHOOSE x \in ready : TRUE
           o == IF in.flag[j] /\ \E k \in in.hb[j] : done[k] # "successful" THEN "canceled"
                ELSE IF in.rc[j] = 0 THEN "successful" ELSE "failed"
       IN RefOf(in, (j :> o) @@ done, left \ {j})
Ref(in) == RefOf(in, <<>>, ToSet(in.jobs))

\* ------------------------------------------------------------------ clauses over an event sequence
Pos(ev, kind, j) == {p \in 1..Len(ev) : ev[p][1] = kind /\ ev[p][2] = j}
HasOutcomeBefore(ev, k, p) == \E x \in 1..(p - 1) : ev[x][2] = k /\ ev[x][1] \in {"result", "cancel"}
\* C02 on the node: a job is started only when every blocker handed over with the batch has an outcome
StartAfterBlockers(in, ev) ==
  \A p \in 1..Len(ev) : ev[p][1] = "start" => \A k \in in.hb[ev[p][2]] : HasOutcomeBefore(ev, k, p)
\* C01/C04: started at most once; a canceled job never runs (before or after)
OneLaunch(in, ev) == \A j \in ToSet(in.jobs) : Cardinality(Pos(ev, "start", j)) <= 1
CanceledNeverRuns(in, ev) == \A j \in ToSet(in.jobs) : Pos(ev, "cancel", j) # {} => Pos(ev, "start", j) = {}
\* C04: a job is canceled only if it carries the flag and one of its blockers failed or was canceled before
CanceledOnlyIf(in, ev) ==
  \A p \in 1..Len(ev) : ev[p][1] = "cancel" =>
     /\ in.flag[ev[p][2]]
     /\ \E k \in in.hb[ev[p][2]] : \E x \in 1..(p - 1) : ev[x][2] = k /\
           ((ev[x][1] = "result" /\ in.rc[k] # 0) \/ ev[x][1] = "cancel")
\* C06: never more job processes than the node's limit
ProcsBound(in, ev) ==
  \A p \in 1..Len(ev) : ev[p][1] = "start" =>
     Cardinality({j \in ToSet(in.jobs) : \E x \in 1..p : ev[x] [1] = "start" /\ ev[x][2] = j
                                          /\ ~\E y \in (x + 1)..p : ev[y][1] = "done" /\ ev[y][2] = j}) <= in.depth
\* at the end (C04, both halves; C03 on the node): canceled exactly when the reference says so, everything else ran once
CanceledIff(in, ev) == \A j \in ToSet(in.jobs) : (Pos(ev, "cancel", j) # {}) <=> (Ref(in)[j] = "canceled")
NotCanceledRuns(in, ev) ==
  \A j \in ToSet(in.jobs) : Ref(in)[j] # "canceled" => Cardinality(Pos(ev, "start", j)) = 1 /\ Pos(ev, "done", j) # {}
SafetyClauses(in, ev) ==
  (IF StartAfterBlockers(in, ev) THEN {} ELSE {"StartAfterBlockers"})
  \cup (IF OneLaunch(in, ev) THEN {} ELSE {"OneLaunch"})
  \cup (IF CanceledNeverRuns(in, ev) THEN {} ELSE {"CanceledNeverRuns"})
  \cup (IF CanceledOnlyIf(in, ev) THEN {} ELSE {"CanceledOnlyIf"})
  \cup (IF ProcsBound(in, ev) THEN {} ELSE {"ProcsBound"})
EndClauses(in, ev) ==
  (IF CanceledIff(in, ev) THEN {} ELSE {"CanceledIff"})
  \cup (IF NotCanceledRuns(in, ev) THEN {} ELSE {"NotCanceledRuns"})

\* ------------------------------------------------------------------ input spaces
Names == <<"A", "B", "C", "D", "E">>
RECURSIVE Peel(_, _)
Peel(h, left) == IF left = {} THEN TRUE
                 ELSE LET ready == {j \in left : h[j] \cap left = {}} IN IF ready = {} THEN FALSE ELSE Peel(h, left \ ready)
\* every acyclic blocker relation over n jobs (the listing order A, B, ... is arbitrary relative to it), every assignment of
\* the cancel flag, exit codes from rcs with at most maxfail failing jobs, every process limit in depths
AllInputs(n, maxfail, depths) ==
  LET Js == {Names[k] : k \in 1..n}
      H == {x \in [Js -> SUBSET Js] : Peel(x, Js)}
      RC == {r \in [Js -> {0, 1}] : Cardinality({j \in Js : r[j] # 0}) <= maxfail}
      FL == [Js -> BOOLEAN]
  IN {[jobs |-> SubSeq(Names, 1, n), hb |-> c[1], flag |-> c[2], rc |-> c[3], depth |-> c[4], nolaunch |-> {}] : c \in H \X FL \X RC \X depths}
\* ... and one job whose command cannot be started (all others succeed)
NoLaunchInputs(n, depths) ==
  LET Js == {Names[k] : k \in 1..n}
      H == {x \in [Js -> SUBSET Js] : Peel(x, Js)}
      FL == [Js -> BOOLEAN]
  IN {[jobs |-> SubSeq(Names, 1, n), hb |-> c[1], flag |-> c[2], rc |-> [j \in Js |-> 0], depth |-> c[3], nolaunch |-> {c[4]}]
        : c \in H \X FL \X depths \X Js}
Inputs2 == AllInputs(1, 1, {1}) \cup AllInputs(2, 2, {1, 2})
Inputs3 == Inputs2 \cup AllInputs(3, 3, {1, 2, 3}) \cup NoLaunchInputs(2, {1, 2}) \cup NoLaunchInputs(3, {1, 2, 3})
Inputs4 == AllInputs(4, 1, {1, 2, 4})

\* ------------------------------------------------------------------ machine: every input, every placement of the exits
VARIABLES cur, q, i
vars == <<cur, q, i>>
Obs == IF Mode = "obs" THEN JsonDeserialize(IOEnv.TRACE_FILE) ELSE <<>>
ASSUME TLCSet(1, 0)

MInit == cur \in Inputs /\ q = Settle(SubmitAll(cur)) /\ i = 0
MExit == \E j \in q.run \ q.exited : q' = ExitJobs(q, {j})
MScan == q.pc = "scan" /\ (q.exited # {} \/ q.canc # {} \/ q.run = {}) /\ q' = Scan(cur, q)
MStart == q.pc = "start" /\ q' = Start(cur, q)
MNext == q.pc \notin {"done", "error"} /\ (MExit \/ MScan \/ MStart) /\ UNCHANGED <<cur, i>>

M_Safety == Mode = "machine" => SafetyClauses(cur, q.ev) = {}
M_End == (Mode = "machine" /\ q.pc = "done") => EndClauses(cur, q.ev) = {}
\* a queue that is not finished can always move (no job waits for ever): the only states without a successor are "done"
M_NoDeadEnd == (Mode = "machine" /\ q.pc \notin {"done", "error"}) => (ENABLED MExit \/ ENABLED MScan \/ ENABLED MStart)
\* the queue dies only because a command could not be started, and then nothing was started after that
M_ErrorOnlyNoLaunch == (Mode = "machine" /\ q.pc = "error") => cur.nolaunch # {}
\* the job processes alive never exceed the limit; canceled jobs pass through the outstanding list without a process
M_Depth == Mode = "machine" => Cardinality(q.run) <= cur.depth
\* progress (under fairness of the queue's own steps and of job exits): every run ends
Keep == UNCHANGED <<cur, i>>
MFair == WF_vars(MScan /\ Keep) /\ WF_vars(MStart /\ Keep) /\ WF_vars(MExit /\ Keep)
M_Terminates == <>(q.pc \in {"done", "error"})

\* ------------------------------------------------------------------ observations of the real JobQueue
\* o.in, o.sched (sequence of sequences of job names), o.ev (observed events), o.rows (<<name, rc, status>> as read from the
\* node's result file, in file order), o.end ("done" | "more" | "stuck" | "error")
RowsExpected(inx, ev) ==
  LET outcomes == SelectSeq(ev, LAMBDA e : e[1] \in {"result", "cancel"})
  IN [k \in 1..Len(outcomes) |->
        IF outcomes[k][1] = "cancel" THEN <<outcomes[k][2], 1, "canceled">>
        ELSE <<outcomes[k][2], inx.rc[outcomes[k][2]], "finished">>]
Norm(oin) == [oin EXCEPT !.hb = [j \in DOMAIN oin.hb |-> ToSet(oin.hb[j])], !.nolaunch = ToSet(@)]      \* JSON lists -> sets
Verdict(o) ==
  LET inx == Norm(o.in)
      r == Run(inx, o.sched) IN
  SafetyClauses(inx, o.ev)
  \cup (IF o.end = "done" THEN EndClauses(inx, o.ev)
        ELSE IF o.end = "error" /\ r.pc = "error" THEN {}          \* a command that cannot be started ends the runner
        ELSE {"NotCanceledRuns"})
  \cup (IF o.rows = RowsExpected(inx, o.ev) THEN {} ELSE {"NodeRowsMatchOutcomes"})
  \cup (IF r.ev = o.ev /\ r.pc = o.end THEN {} ELSE {"DRIFT"})

OInit == cur = <<>> /\ q = <<>> /\ i \in 1..Len(Obs)
Init == IF Mode = "machine" THEN MInit ELSE OInit
Next == IF Mode = "machine" THEN MNext ELSE UNCHANGED vars
Spec == Init /\ [][Next]_vars
FairSpec == Spec /\ MFair
Report == Mode = "obs" =>
            /\ TLCSet(1, TLCGet(1) + 1)
            /\ PrintT(<<"VERDICT", ToJson([id |-> Obs[i].id, viol |-> Verdict(Obs[i])])>>)
AllSeen == Mode = "obs" => TLCGet(1) = Len(Obs)
=============================================================================
