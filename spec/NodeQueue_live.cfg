SPECIFICATION FairSpec
CONSTANTS
  Mode = "machine"
  Inputs <- Inputs3
PROPERTY M_Terminates
CHECK_DEADLOCK FALSE
