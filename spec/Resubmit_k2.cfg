SPECIFICATION Spec
CONSTANTS
  Mode = "machine"
  MaxN = 2
INVARIANT R_DroppedBlockersHaveOutcomeAlways
CHECK_DEADLOCK FALSE
