------------------------------ MODULE Results ------------------------------
(***************************************************************************)
(* Layer (I): ResultsAggregator (jobs/results_aggregator.py) at lock-      *)
(* operation granularity.  Appenders are job runners appending rows to     *)
(* their node file results_batch_N.csv (AsyncCliCommand._complete ->       *)
(* ResultsAggregator.append); collectors are submitter rounds calling      *)
(* process_results() (processed-results lock held across the whole call,   *)
(* each node file moved under its own lock) and then possibly              *)
(* append_result() of a `canceled` row; readers call list_results().       *)
(* One action = what a process does between two park points of the         *)
(* harness (one lock acquisition up to the next one), so that a behaviour   *)
(* is a schedule of the real code.  Emits the monitor's events.            *)
(***************************************************************************)
EXTENDS JadeMonitor, Json

CONSTANTS Plan,      \* [appenders |-> <<[file, rows]...>>, collectors |-> <<[rounds, cancels]...>>, readers |-> n]
          Scn,       \* scenario record for the monitor (jobs = all row names)
          Log

NA == Len(Plan.appenders)
NC == Len(Plan.collectors)
NR == Plan.readers
Files == {Plan.appenders[a].file : a \in 1..NA}

VARIABLES nodeFile,   \* [Files -> Seq(row)]; <<>> = absent (a file exists iff it has rows: header is written with the first row)
          processed,  \* Seq(row)
          plock,      \* 0 or the collector/reader (as pid) holding the processed-results lock
          ap,         \* [1..NA -> number of rows appended so far]
          co,         \* [1..NC -> [pc, round, todo, got, cdone]]
          rd,         \* [1..NR -> "idle" | "done"]
          m, path

vars == <<nodeFile, processed, plock, ap, co, rd, m, path>>

Pid(kind, k) == CASE kind = "a" -> k [] kind = "c" -> NA + k [] OTHER -> NA + NC + k
RowOf(a, k) == Plan.appenders[a].rows[k]

Feed(lbl, evs) == /\ m' = MonSteps(Scn, m, evs)
                  /\ path' = IF Log THEN Append(path, lbl) ELSE path

EvRows(nf, pr) ==
  [e |-> "rows", proc |-> pr, ok |-> TRUE,
   node |-> LET RECURSIVE L(_) L(bs) == IF bs = {} THEN <<>> ELSE
                   LET b == CHOOSE x \in bs : \A y \in bs : x <= y IN <<<<b, nf[b]>>>> \o L(bs \ {b})
            IN L({b \in Files : nf[b] # <<>>})]

AllNames == UNION {{RowOf(a, k)[1] : k \in 1..Len(Plan.appenders[a].rows)} : a \in 1..NA}

Init ==
  /\ nodeFile = [f \in Files |-> <<>>] /\ processed = <<>> /\ plock = 0
  /\ ap = [a \in 1..NA |-> 0]
  /\ co = [c \in 1..NC |-> [pc |-> "idle", round |-> 0, todo |-> {}, got |-> <<>>, cdone |-> 0]]
  /\ rd = [r \in 1..NR |-> "idle"]
  /\ m = MonSteps(Scn, MonInit(Scn),
           LET RECURSIVE JE(_, _) JE(a, k) ==
                 IF a > NA THEN <<>>
                 ELSE IF k > Len(Plan.appenders[a].rows) THEN JE(a + 1, 1)
                 ELSE <<[e |-> "jobexit", job |-> RowOf(a, k)[1], rc |-> IF RowOf(a, k)[2] = "0" THEN 0 ELSE 1]>> \o JE(a, k + 1)
           IN JE(1, 1))
  /\ path = <<>>

\* ---- a runner appends its next row: node-file lock, open "a" (+ header when empty), write, release
AppendRow(a) ==
  /\ ap[a] < Len(Plan.appenders[a].rows)
  /\ LET f == Plan.appenders[a].file
         r == RowOf(a, ap[a] + 1)
         nf == [nodeFile EXCEPT ![f] = Append(@, r)] IN
     /\ nodeFile' = nf
     /\ ap' = [ap EXCEPT ![a] = @ + 1]
     /\ Feed(<<"AppendRow", Pid("a", a)>>, <<[e |-> "append", row |-> r], EvRows(nf, processed), [e |-> "appended", row |-> r]>>)
  /\ UNCHANGED <<processed, plock, co, rd>>

\* ---- process_results(): take the processed lock, glob; with no node file the call returns at once
Begin(c) ==
  /\ co[c].pc = "idle" /\ co[c].round < Plan.collectors[c].rounds /\ plock = 0
  /\ LET todo == {f \in Files : nodeFile[f] # <<>>} IN
     IF todo = {}
       THEN /\ co' = [co EXCEPT ![c].round = @ + 1, ![c].pc = IF Plan.collectors[c].cancels # <<>> /\ co[c].cdone = 0 THEN "cancel" ELSE "idle"]
            /\ Feed(<<"Begin", Pid("c", c)>>, <<EvRows(nodeFile, processed), [e |-> "collected", rows |-> <<>>]>>)
            /\ UNCHANGED plock
       ELSE /\ co' = [co EXCEPT ![c].pc = "move", ![c].todo = todo, ![c].got = <<>>]
            /\ plock' = Pid("c", c)
            /\ Feed(<<"Begin", Pid("c", c)>>, <<>>)
  /\ UNCHANGED <<nodeFile, processed, ap, rd>>

\* ---- move one node file (its lock is free whenever nobody is between two park points inside it)
MoveOne(c, f) ==
  /\ co[c].pc = "move" /\ f \in co[c].todo
  /\ LET pr == processed \o nodeFile[f]
         nf == [nodeFile EXCEPT ![f] = <<>>]
         got1 == co[c].got \o nodeFile[f]
         last == co[c].todo = {f} IN
     /\ processed' = pr /\ nodeFile' = nf
     /\ co' = [co EXCEPT ![c].todo = @ \ {f}, ![c].got = got1,
                         ![c].round = IF last THEN @ + 1 ELSE @,
                         ![c].pc = IF ~last THEN "move"
                                   ELSE IF Plan.collectors[c].cancels # <<>> /\ co[c].cdone = 0 THEN "cancel" ELSE "idle"]
     /\ plock' = IF last THEN 0 ELSE plock
     /\ Feed(<<"MoveOne", Pid("c", c), f>>,
             <<EvRows(nf, pr)>> \o (IF last THEN <<EvRows(nf, pr), [e |-> "collected", rows |-> got1]>> ELSE <<>>))
  /\ UNCHANGED <<ap, rd>>

\* ---- the submitter appends a `canceled` row to the processed file (HpcSubmitter._cancel_job)
CancelAppend(c) ==
  /\ co[c].pc = "cancel" /\ plock = 0
  /\ LET k == co[c].cdone + 1
         r == Plan.collectors[c].cancels[k]
         pr == Append(processed, r) IN
     /\ processed' = pr
     /\ co' = [co EXCEPT ![c].cdone = k, ![c].pc = IF k = Len(Plan.collectors[c].cancels) THEN "idle" ELSE "cancel"]
     /\ Feed(<<"CancelAppend", Pid("c", c)>>, <<[e |-> "append", row |-> r], EvRows(nodeFile, pr), [e |-> "appended", row |-> r]>>)
  /\ UNCHANGED <<nodeFile, plock, ap, rd>>

\* ---- list_results(): read the processed file under its lock
Read(r) ==
  /\ rd[r] = "idle" /\ plock = 0
  /\ rd' = [rd EXCEPT ![r] = "done"]
  /\ Feed(<<"Read", Pid("r", r)>>, <<EvRows(nodeFile, processed)>>)
  /\ UNCHANGED <<nodeFile, processed, plock, ap, co>>

Next == \/ \E a \in 1..NA : AppendRow(a)
        \/ \E c \in 1..NC : Begin(c) \/ CancelAppend(c) \/ \E f \in Files : MoveOne(c, f)
        \/ \E r \in 1..NR : Read(r)
Spec == Init /\ [][Next]_vars

View == <<nodeFile, processed, plock, ap, co, rd, [m EXCEPT !.pos = 0, !.vpos = <<>>, !.cnt = <<>>]>>

Finished == /\ \A a \in 1..NA : ap[a] = Len(Plan.appenders[a].rows)
            /\ \A c \in 1..NC : co[c].pc = "idle" /\ co[c].round = Plan.collectors[c].rounds
            /\ \A r \in 1..NR : rd[r] = "done"

\* ---- C08
P_C08 == Holds(m, "C08")
RECURSIVE CatF(_)
CatF(fs) == IF fs = {} THEN <<>> ELSE LET f == CHOOSE x \in fs : TRUE IN nodeFile[f] \o CatF(fs \ {f})
AppendedSoFar == UNION {{RowOf(a, k) : k \in 1..ap[a]} : a \in 1..NA}
               \cup UNION {{Plan.collectors[c].cancels[k] : k \in 1..co[c].cdone} : c \in 1..NC}
\* bag conservation at every state (every state is between two park points: no aggregator section is half done)
N_Conserved == LET all == processed \o CatF(Files) IN ToSet(all) = AppendedSoFar /\ Len(all) = Cardinality(AppendedSoFar)
\* every row is reported by at most one collection, and once everything was collected by exactly one
N_ReportedOnce == m.reported \subseteq m.intents
N_AllCollectedAtEnd == (Finished /\ \A f \in Files : nodeFile[f] = <<>>) =>
                          \A a \in 1..NA : \A k \in 1..Len(Plan.appenders[a].rows) : RowOf(a, k) \in m.reported

DumpBehaviour == (Log /\ Finished) => PrintT(<<"BEHAVIOUR", ToJson([scn |-> Scn.id, path |-> path])>>)
=============================================================================
