SPECIFICATION Spec
CONSTANTS
  MaxLen = 5
  Mode = "machine"
INVARIANT PlainWords
INVARIANT NoQuoteCharsLeft
INVARIANT QuotedIsOneWord
CHECK_DEADLOCK FALSE
