------------------------------ MODULE Reports ------------------------------
(***************************************************************************)
(* C20: reports are faithful.                                              *)
(*  (1) The running statistics machine of ResourceMonitorAggregator        *)
(*      (update_resource_stats / finalize): Sample(v) actions; invariant:  *)
(*      the running min/max/sum equal Min/Max/Sum of the samples taken.    *)
(*      TLC explores all sample sequences up to MaxLen over 0..MaxVal.     *)
(*  (2) Consolidation of structured events (EventsSummary): the expected   *)
(*      result as operators over a list of files of events.                *)
(*  (3) Validation of observations recorded from the real code (Obs):      *)
(*      "stats"  samples fed to the real aggregator -> min, max, average   *)
(*      "events" files of events -> consolidated lists (twice)             *)
(***************************************************************************)
EXTENDS Naturals, Integers, Sequences, FiniteSets, TLC, Json, IOUtils

CONSTANTS MaxLen, MaxVal, Mode     \* Mode = "machine" (explore the statistics machine) | "obs" (validate observations)

ToSet(s) == {s[k] : k \in 1..Len(s)}
RECURSIVE SumSeq(_)
SumSeq(s) == IF s = <<>> THEN 0 ELSE Head(s) + SumSeq(Tail(s))
MinOf(s) == CHOOSE x \in ToSet(s) : \A y \in ToSet(s) : x <= y
MaxOf(s) == CHOOSE x \in ToSet(s) : \A y \in ToSet(s) : x >= y

\* ------------------------------------------------------------------ (1) the statistics machine
VARIABLES samples, rmin, rmax, rsum, rcount, i
vars == <<samples, rmin, rmax, rsum, rcount, i>>
Unset == -1

Obs == IF Mode = "obs" THEN JsonDeserialize(IOEnv.TRACE_FILE) ELSE <<>>
ASSUME TLCSet(1, 0)

MInit == samples = <<>> /\ rmin = Unset /\ rmax = Unset /\ rsum = 0 /\ rcount = 0 /\ i = 0
Sample(v) ==
  /\ Len(samples) < MaxLen
  /\ samples' = Append(samples, v)
  /\ rmax' = IF rmax = Unset \/ v > rmax THEN v ELSE rmax       \* two independent comparisons
  /\ rmin' = IF rmin = Unset \/ v < rmin THEN v ELSE rmin
  /\ rsum' = rsum + v /\ rcount' = rcount + 1 /\ i' = i
MNext == \E v \in 0..MaxVal : Sample(v)
StatsCorrect == samples # <<>> => /\ rmin = MinOf(samples) /\ rmax = MaxOf(samples)
                                  /\ rsum = SumSeq(samples) /\ rcount = Len(samples)
                                  /\ rmin <= rmax

\* ------------------------------------------------------------------ (2) consolidation
\* an event is <<name, timestamp, uid, payload>>; a file is a sequence of events
AllEvents(files) == LET RECURSIVE Cat(_) Cat(fs) == IF fs = <<>> THEN <<>> ELSE Head(fs) \o Cat(Tail(fs)) IN Cat(files)
NamesOf(files) == {e[1] : e \in ToSet(AllEvents(files))}
\* the consolidated list of one name: exactly the events of that name (each once, intact), ordered by time
ConsolidatedOk(files, name, out) ==
  LET want == {e \in ToSet(AllEvents(files)) : e[1] = name} IN
  /\ ToSet(out) = want /\ Len(out) = Cardinality(want)
  /\ \A a, b \in 1..Len(out) : a < b => out[a][2] <= out[b][2]

\* ------------------------------------------------------------------ (3) observations
StatsVerdict(o) ==
  LET s == o.samples IN
  (IF o.min = MinOf(s) THEN {} ELSE {"TrueMinimum"})
  \cup (IF o.max = MaxOf(s) THEN {} ELSE {"TrueMaximum"})
  \cup (IF o.avgnum * Len(s) = SumSeq(s) * o.avgden THEN {} ELSE {"TrueMean"})
  \cup (IF o.count = Len(s) THEN {} ELSE {"SampleCount"})
EventsVerdict(o) ==
  LET names == NamesOf(o.files) IN
  (IF {o.out[k][1] : k \in 1..Len(o.out)} = names /\ Len(o.out) = Cardinality(names) THEN {} ELSE {"EveryNameConsolidated"})
  \cup (IF \A k \in 1..Len(o.out) : ConsolidatedOk(o.files, o.out[k][1], o.out[k][2]) THEN {} ELSE {"EventsLosslessOrdered"})
  \cup (IF o.out2 = o.out THEN {} ELSE {"ConsolidationIdempotent"})
\* resource-statistics events (cpu_stats, process_stats, ...) are consolidated into one table per name instead: a row per event
\* -- per monitored process for process_stats -- carrying the event's time and source and the row's own fields.
\* A table event is <<name, timestamp, source, rows>>; the expected table of a name:
TableRows(files, name) ==
  UNION {{<<e[2], e[3]>> \o e[4][k] : k \in 1..Len(e[4])} : e \in {x \in ToSet(AllEvents(files)) : x[1] = name}}
TableOk(files, name, out) ==
  LET want == TableRows(files, name) IN
  /\ ToSet(out) = want /\ Len(out) = Cardinality(want)
  /\ \A a, b \in 1..Len(out) : a < b => out[a][1] <= out[b][1]
TablesVerdict(o) ==
  LET names == NamesOf(o.files) IN
  IF o.raised # "" THEN {"StatTablesLossless"}
  ELSE (IF {o.out[k][1] : k \in 1..Len(o.out)} = names /\ Len(o.out) = Cardinality(names) THEN {} ELSE {"EveryNameConsolidated"})
       \cup (IF \A k \in 1..Len(o.out) : TableOk(o.files, o.out[k][1], o.out[k][2]) THEN {} ELSE {"StatTablesLossless"})
       \cup (IF o.out2 = o.out THEN {} ELSE {"ConsolidationIdempotent"})
Verdict(o) == IF o.kind = "stats" THEN StatsVerdict(o) ELSE IF o.kind = "tables" THEN TablesVerdict(o) ELSE EventsVerdict(o)

OInit == samples = <<>> /\ rmin = 0 /\ rmax = 0 /\ rsum = 0 /\ rcount = 0 /\ i \in 1..Len(Obs)
Init == IF Mode = "machine" THEN MInit ELSE OInit
Next == IF Mode = "machine" THEN MNext ELSE UNCHANGED vars
Spec == Init /\ [][Next]_vars
Report == Mode = "obs" =>
            /\ TLCSet(1, TLCGet(1) + 1)
            /\ PrintT(<<"VERDICT", ToJson([id |-> Obs[i].id, viol |-> Verdict(Obs[i])])>>)
AllSeen == Mode = "obs" => TLCGet(1) = Len(Obs)
=============================================================================
