SPECIFICATION Spec
CONSTANTS
  MaxRetries = 6
  Mode = "machine"
INVARIANT RetryBound
INVARIANT StopsAtFirstSuccess
INVARIANT EndsWhenExhausted
INVARIANT ResultIsLastAttempt
CHECK_DEADLOCK FALSE
