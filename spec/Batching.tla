------------------------------ MODULE Batching ------------------------------
(***************************************************************************)
(* Layer (I): implementation-shaped model of batch construction for ONE    *)
(* submission group in ONE submitter round:                                *)
(*   HpcSubmitter._submit_batches / _get_available_jobs(_by_time) /        *)
(*   _make_batch / _BatchJobs.try_append / is_job_blocked                  *)
(* One Scan step = one iteration of the inner `for i, job in enumerate`.   *)
(* Init chooses the whole input nondeterministically, so TLC enumerates    *)
(* every job list of N jobs (listing order, remaining blockers incl. a     *)
(* blocker outside the list, estimates, time-based, try-add-blocked,       *)
(* capacity, batch size, node budget).                                     *)
(*                                                                         *)
(* Repaired = TRUE is the algorithm of the current tree (after the fix:    *)
(* commit for finding F1); Repaired = FALSE keeps the pinned, defective    *)
(* cursor update so that TLC can still exhibit the double placement.       *)
(***************************************************************************)
EXTENDS Naturals, Sequences, FiniteSets, TLC, Json, BatchingOps

CONSTANTS N,          \* number of available (not submitted) jobs, named 1..N in listing order
          Ext,        \* "some unfinished job outside the list" (model value / number 0)
          MaxEst,     \* estimates range over 1..MaxEst
          MaxCapExtra,\* capacity ranges over MaxEst..MaxEst+MaxCapExtra
          Repaired,
          DumpInputs  \* TRUE: print <<input, batches>> of every terminated run as JSON

Names == 1..N

VARIABLES
  rem, est, timeBased, tryAdd, cap, size, maxNodes,          \* the input (never changes)
  avail, batches, blockedOut,                                 \* _submit_batches
  pc, pass, i, hi, cur, curTime, ready, sub, blk, maxPass     \* _make_batch

input == <<rem, est, timeBased, tryAdd, cap, size, maxNodes>>
vars == <<rem, est, timeBased, tryAdd, cap, size, maxNodes, avail, batches, blockedOut,
          pc, pass, i, hi, cur, curTime, ready, sub, blk, maxPass>>

\* python's list.sort is stable: insertion sort by estimate keeps listing order among equals
RECURSIVE InsertSorted(_, _, _)
InsertSorted(s, x, e) ==
  IF s = <<>> THEN <<x>>
  ELSE IF e[Head(s)] <= e[x] THEN <<Head(s)>> \o InsertSorted(Tail(s), x, e)
       ELSE <<x>> \o s
RECURSIVE SortBy(_, _)
SortBy(s, e) == IF s = <<>> THEN <<>> ELSE InsertSorted(SortBy(SubSeq(s, 1, Len(s) - 1), e), s[Len(s)], e)

Range(s) == {s[k] : k \in 1..Len(s)}

Init ==
  /\ rem \in [Names -> SUBSET (Names \cup {Ext})]
  /\ \A j \in Names : j \notin rem[j]
  /\ timeBased \in BOOLEAN
  /\ est \in [Names -> 1..MaxEst]
  /\ (~timeBased => \A j \in Names : est[j] = 1)
  /\ tryAdd \in BOOLEAN
  /\ cap \in MaxEst..(MaxEst + MaxCapExtra)     \* walltime*procs >= every single estimate (check_job_runtimes)
  /\ (~timeBased => cap = MaxEst)
  /\ size \in 1..N
  /\ (timeBased => size = 1)
  /\ maxNodes \in 1..N
  /\ avail = IF timeBased THEN SortBy([k \in 1..N |-> k], est) ELSE [k \in 1..N |-> k]
  /\ batches = <<>> /\ blockedOut = {}
  /\ pc = "loop" /\ pass = 0 /\ i = 0 /\ hi = 0 /\ cur = <<>> /\ curTime = 0 /\ ready = FALSE
  /\ sub = {} /\ blk = {} /\ maxPass = 0

QueueFull == Len(batches) >= maxNodes

\* while not queue.is_full() and available_jobs:   (then one _make_batch call starts)
Loop ==
  /\ pc = "loop"
  /\ IF ~QueueFull /\ avail # <<>>
       THEN /\ pc' = "scan" /\ pass' = 1 /\ i' = 1 /\ hi' = 0   \* hi = highest_index + 1 (1-based); 0 is -1
            /\ cur' = <<>> /\ curTime' = 0 /\ ready' = FALSE /\ sub' = {} /\ blk' = {}
            /\ maxPass' = IF tryAdd THEN Len(avail) ELSE 1
       ELSE /\ pc' = "done" /\ UNCHANGED <<pass, i, hi, cur, curTime, ready, sub, blk, maxPass>>
  /\ UNCHANGED <<rem, est, timeBased, tryAdd, cap, size, maxNodes, avail, batches, blockedOut>>

IsBlocked(j) == rem[j] # {} /\ ~(tryAdd /\ rem[j] \subseteq Range(cur))

\* one iteration of the inner for loop
Scan ==
  /\ pc = "scan"
  /\ LET j    == avail[i]
         hi1  == IF i > hi THEN i ELSE hi
         skip == j \in sub                                       \* "continue"
         blocked == IsBlocked(j)
         fits == ~(timeBased /\ curTime + est[j] > cap)          \* _BatchJobs.try_append
         app  == ~skip /\ ~blocked /\ fits
         rej  == ~skip /\ ~blocked /\ ~fits
         cur1 == IF app THEN Append(cur, j) ELSE cur
         sub1 == IF app THEN sub \cup {j} ELSE sub
         blk1 == IF skip THEN blk ELSE IF blocked THEN blk \cup {j} ELSE IF app THEN blk \ {j} ELSE blk
         rdy1 == IF rej THEN TRUE
                 ELSE IF app /\ ~timeBased /\ Len(cur1) >= size THEN TRUE ELSE ready
         \* "Need to look at this job in the next round."
         hi2  == IF rej THEN (IF Repaired THEN (IF i = hi1 THEN hi1 - 1 ELSE hi1) ELSE hi1 - 1) ELSE hi1
         isDone == ~skip /\ (rdy1 \/ Cardinality(sub1) = Len(avail))
     IN /\ cur' = cur1 /\ sub' = sub1 /\ blk' = blk1 /\ ready' = rdy1 /\ hi' = hi2
        /\ curTime' = IF app /\ timeBased THEN curTime + est[j] ELSE curTime
        /\ IF isDone THEN pc' = "emit" /\ UNCHANGED <<i, pass>>
           ELSE IF i < Len(avail) THEN i' = i + 1 /\ UNCHANGED <<pc, pass>>
           ELSE IF pass < maxPass THEN pass' = pass + 1 /\ i' = 1 /\ UNCHANGED pc
           ELSE pc' = "emit" /\ UNCHANGED <<i, pass>>
  /\ UNCHANGED <<rem, est, timeBased, tryAdd, cap, size, maxNodes, avail, batches, blockedOut, maxPass>>

Emit ==
  /\ pc = "emit"
  /\ batches' = IF cur # <<>> THEN Append(batches, cur) ELSE batches
  /\ blockedOut' = blockedOut \cup blk
  /\ avail' = IF hi >= Len(avail) THEN <<>> ELSE SubSeq(avail, hi + 1, Len(avail))      \* not_checked
  /\ pc' = "loop" /\ cur' = <<>> /\ sub' = {} /\ blk' = {}
  /\ UNCHANGED <<rem, est, timeBased, tryAdd, cap, size, maxNodes, pass, i, hi, curTime, ready, maxPass>>

Done == pc = "done" /\ UNCHANGED vars

Next == Loop \/ Scan \/ Emit \/ Done
Spec == Init /\ [][Next]_vars /\ WF_vars(Loop \/ Scan \/ Emit)

-----------------------------------------------------------------------------
AllBatched == UNION {Range(batches[b]) : b \in 1..Len(batches)} \cup Range(cur)

\* C01: no job in two batches (including the batch under construction), no job twice in one batch
NoDoublePlacement ==
  /\ \A b1, b2 \in 1..Len(batches) : b1 # b2 => Range(batches[b1]) \cap Range(batches[b2]) = {}
  /\ \A b \in 1..Len(batches) : Len(batches[b]) = Cardinality(Range(batches[b]))
  /\ \A b \in 1..Len(batches) : Range(batches[b]) \cap Range(cur) = {}

RECURSIVE SumEst(_)
SumEst(s) == IF s = <<>> THEN 0 ELSE est[Head(s)] + SumEst(Tail(s))

\* C07: the admissibility predicate of one batch (the monitor evaluates the same shape on real batches)
BatchOk(b) ==
  /\ b # <<>>
  /\ IF timeBased THEN SumEst(b) <= cap ELSE Len(b) <= size
  /\ \A k \in 1..Len(b) : rem[b[k]] # {} => (tryAdd /\ rem[b[k]] \subseteq Range(b))
Admissible == \A b \in 1..Len(batches) : BatchOk(batches[b])

\* C06 (one round): at most maxNodes batches
NodesOk == Len(batches) <= maxNodes

\* C05 clause: at the end an unblocked job is left unsubmitted only if the node budget is used up
NoIdleLeftover == pc = "done" => (\A j \in Names : (rem[j] = {} /\ j \notin AllBatched) => QueueFull)

\* jobs reported as blocked are really blocked and not placed
BlockedReportSound == pc = "done" => \A j \in blockedOut : rem[j] # {} /\ j \notin AllBatched

\* the assertion at the end of _submit_batches / in Cluster._update_job_status
SubmittedListConsistent == pc = "done" => blockedOut \cap AllBatched = {}

\* the closed form used by JadeImpl agrees with the step-wise run (checked when a _make_batch call ends)
P == [rem |-> rem, est |-> est, tb |-> timeBased, tryadd |-> tryAdd, cap |-> cap, size |-> size, repaired |-> Repaired]
ClosedFormAgrees ==
  pc = "emit" => LET r == MakeBatch(P, avail)
                 IN /\ r.batch = cur /\ r.blocked = blk
                    /\ r.rest = (IF hi >= Len(avail) THEN <<>> ELSE SubSeq(avail, hi + 1, Len(avail)))

Terminates == <>(pc = "done")

Dump == (DumpInputs /\ pc = "done") =>
          PrintT(<<"BATCHING", ToJson([rem |-> [j \in Names |-> rem[j]], est |-> est, tb |-> timeBased, tryadd |-> tryAdd,
                                       cap |-> cap, size |-> size, maxnodes |-> maxNodes, batches |-> batches,
                                       blocked |-> blockedOut, passes |-> pass])>>)
=============================================================================
