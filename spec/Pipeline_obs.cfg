SPECIFICATION Spec
CONSTANTS
  Mode = "obs"
  MaxN = 0
INVARIANT Report
POSTCONDITION AllSeen
CHECK_DEADLOCK FALSE
