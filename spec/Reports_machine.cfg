SPECIFICATION Spec
CONSTANTS
  MaxLen = 5
  MaxVal = 3
  Mode = "machine"
INVARIANT StatsCorrect
CHECK_DEADLOCK FALSE
