SPECIFICATION Spec
CONSTANTS
  MaxLen = 0
  MaxVal = 0
  Mode = "obs"
INVARIANT Report
POSTCONDITION AllSeen
CHECK_DEADLOCK FALSE
