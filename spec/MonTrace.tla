------------------------------ MODULE MonTrace ------------------------------
(* Trace validation: every trace recorded from the real code (one JSON array of
   [scn, ev] records per TLC invocation) is folded through JadeMonitor; the verdict
   of each trace (violated clauses with the position of the offending event, and the
   antecedent counters) is printed when its last event has been consumed. *)
EXTENDS JadeMonitor, Json, IOUtils, TLCExt

Traces == JsonDeserialize(IOEnv.TRACE_FILE)

ASSUME TLCSet(1, 0)

VARIABLES tid, l, m
vars == <<tid, l, m>>

Init == /\ tid \in 1..Len(Traces)
        /\ l = 0
        /\ m = MonInit(Traces[tid].scn)

Next == /\ l < Len(Traces[tid].ev)
        /\ l' = l + 1
        /\ tid' = tid
        /\ m' = MonStep(Traces[tid].scn, m, Traces[tid].ev[l + 1])

Spec == Init /\ [][Next]_vars

\* always TRUE; prints the verdict of a trace once it has been consumed to its end
Report ==
  (l = Len(Traces[tid].ev)) =>
     /\ TLCSet(1, TLCGet(1) + 1)
     /\ PrintT(<<"VERDICT", ToJson([tid |-> tid, id |-> Traces[tid].scn.id, viol |-> m.viol, vpos |-> m.vpos, cnt |-> m.cnt])>>)

AllConsumed == TLCGet(1) = Len(Traces)

\* the listed properties as invariants of the trace specification (used when a single trace is re-checked)
C01 == Holds(m, "C01")
C02 == Holds(m, "C02")
C03 == Holds(m, "C03")
C04 == Holds(m, "C04")
C05 == Holds(m, "C05")
C06 == Holds(m, "C06")
C07 == Holds(m, "C07")
C08 == Holds(m, "C08")
C09 == Holds(m, "C09")
C10 == Holds(m, "C10")
C12 == Holds(m, "C12")
C14 == Holds(m, "C14")
=============================================================================
