---------------------------- MODULE JadeMonitor ----------------------------
(***************************************************************************)
(* Layer (M): the observable events of one JADE submission directory and   *)
(* the listed properties, written once.  The monitor is a pure fold:       *)
(*    MonInit(S)       initial history for scenario record S               *)
(*    MonStep(S, m, e) consume one observed event                          *)
(* A clause that is broken adds its name to m.viol; every property is the  *)
(* invariant  "its clauses are not in m.viol".  The same two operators are *)
(* driven (a) by traces recorded from the real code (MonTrace.tla) and     *)
(* (b) by the implementation-shaped models, which emit the same events.    *)
(*                                                                         *)
(* The monitor demands nothing the property text does not state; clauses   *)
(* that need "fault-free" or "every batch ran to its end" carry that       *)
(* antecedent explicitly (m.faulty / m.nodefault are set by the fault and  *)
(* hpc events of the trace itself).                                        *)
(***************************************************************************)
EXTENDS Naturals, Integers, Sequences, FiniteSets, TLC

ToSet(s) == {s[k] : k \in 1..Len(s)}
IsInj(s) == Cardinality(ToSet(s)) = Len(s)
Max(a, b) == IF a >= b THEN a ELSE b
RECURSIVE SumSeq(_)
SumSeq(s) == IF s = <<>> THEN 0 ELSE Head(s) + SumSeq(Tail(s))
Count(s, x) == Cardinality({k \in 1..Len(s) : s[k] = x})

JobsOf(S) == ToSet(S.jobs)
BlkOf(S, j) == ToSet(S.blk[j])

\* row = <<name, rc (string), status, exec, completion, hpcid>>
RName(r) == r[1]
RFailed(r) == r[2] # "0"

NoStatus == [sub |-> "", njobs |-> 0, nsub |-> 0, ndone |-> 0, complete |-> FALSE, canceled |-> FALSE,
             cver |-> 0, cverf |-> 0, jver |-> 0, jverf |-> 0, st |-> <<>>, rem |-> <<>>, ids |-> <<>>,
             bidx |-> 0, marker |-> FALSE, rows |-> <<>>]

MonInit(S) ==
  [ pos       |-> 0,
    viol      |-> {},
    vpos      |-> [x \in {} |-> 0],        \* clause -> position of the first event that broke it
    cnt       |-> [x \in {} |-> 0],        \* clause antecedent counters (vacuity)
    faulty    |-> FALSE,                   \* some fault was injected (kill, failed command, lock timeout, failed write)
    nodefault |-> FALSE,                   \* some batch did not run to its end (failed sbatch, node killed/timed out/cancelled)
    epoch     |-> 0,
    kind      |-> [p \in {} |-> ""],       \* pid -> command label
    pbatch    |-> [p \in {} |-> 0],        \* pid -> batch number of node processes
    killedB   |-> {},                      \* batches whose node was killed / timed out / cancelled
    alive     |-> {},                      \* pids running
    placed    |-> [j \in JobsOf(S) |-> {}],
    usedIdx   |-> {},
    bjobs     |-> [b \in {} |-> <<>>],     \* batch number -> job list (from cfgbatch)
    cfgseq    |-> <<>>,                    \* job lists of the batch files in the order they were written
    launches  |-> [j \in JobsOf(S) |-> 0],
    exited    |-> [j \in {} |-> 0],        \* job -> exit code decided by the environment
    intents   |-> {},                      \* rows some writer announced
    appended  |-> {},                      \* rows whose append returned
    res       |-> [j \in {} |-> <<>>],     \* job -> latest appended row
    reported  |-> {},                      \* rows returned by a collection
    canceledJ |-> {},                      \* jobs with a canceled row
    active    |-> 0,
    okSbatch  |-> 0,
    hasSt     |-> FALSE,
    st        |-> NoStatus,
    cancelSeen|-> FALSE,
    activeAtCancel |-> {},
    cleanAtCancel |-> FALSE,
    scancelled|-> {},
    bstate    |-> [b \in {} |-> ""],       \* batch -> pending/running/ended/killed
    completions |-> 0,                     \* transitions to complete in this epoch
    regrouped |-> FALSE, gover |-> <<>>,   \* the groups' parameters were replaced by a resubmission (regroup events)
    summaries |-> 0,                       \* results.json writes in this epoch
    lastSummary |-> [res |-> <<>>, missing |-> <<>>, tally |-> <<0,0,0,0>>],
    rounds    |-> [p \in {} |-> [quiet |-> FALSE, nsb |-> 0, promoted |-> FALSE]],
    holder    |-> 0,                       \* pid that acquired the submitter role (0 = nobody)
    hooks     |-> <<>>,                    \* hook events seen: <<which, b, epoch>>
    anyHandOver |-> FALSE,                 \* a batch was handed to the HPC / a job was started
    marker    |-> FALSE,                   \* submitter.lock exists (marker events)
    nodeEmpty |-> TRUE,                    \* the last look at the result files found no node file with rows
    sqfail    |-> {},                      \* pids whose scheduler query failed
    sqlie     |-> FALSE,                   \* the scheduler answered a status query with an empty listing while batches
                                           \* were active: JADE then believes them gone (limits and completeness are off)
    atPromo   |-> [p \in {} |-> <<>>],     \* pid -> job-status part of the status right after its promotion
    otherFaults |-> FALSE,                 \* a fault other than a failed scheduler query was injected
    rerun     |-> {},
    resubPending |-> {},                   \* resubmit-jobs processes started on a complete submission
    refused   |-> [p \in {} |-> <<>>],     \* resubmit-jobs started on an incomplete submission -> what it must leave as it was
    resubSeen |-> FALSE,
    prevSummary |-> <<>>,                  \* results.json entries before the last resubmission                      \* jobs a resubmission may rerun (epoch > 0)
    ended     |-> FALSE ]

Bump(m, c) == [m EXCEPT !.cnt = IF c \in DOMAIN @ THEN [@ EXCEPT ![c] = @ + 1] ELSE @ @@ (c :> 1)]
\* Check(m, c, ante, ok): count the antecedent, record a violation of clause c
Check(m, c, ante, ok) ==
  IF ~ante THEN m
  ELSE LET m1 == Bump(m, c) IN
       IF ok THEN m1
       ELSE [m1 EXCEPT !.viol = @ \cup {c}, !.vpos = IF c \in DOMAIN @ THEN @ ELSE @ @@ (c :> m.pos)]

HookCount(m, which, b) == Cardinality({k \in 1..Len(m.hooks) : m.hooks[k][1] = which /\ m.hooks[k][2] = b /\ m.hooks[k][3] = m.epoch})
FaultFree(m) == ~m.faulty /\ ~m.nodefault
Grp(S, j) == S.groups[S.grp[j]]
AnyDry(S) == \E g \in DOMAIN S.groups : S.groups[g].dry
\* the reference evaluation gives every job an outcome (no dependency cycle: cycles block forever, C12)
Acyclic(S) == \A j \in JobsOf(S) : S.ref[j] # "missing"

-----------------------------------------------------------------------------
\* C07: admissibility of one batch (shared with Batching.tla through the same predicate shape)
BatchGroupOk(S, jobs) == \A j \in ToSet(jobs) : S.grp[j] = S.grp[jobs[1]]
BatchSizeOk(S, jobs) ==
  LET g == Grp(S, jobs[1]) IN
  IF g.tb THEN SumSeq([k \in 1..Len(jobs) |-> S.est[jobs[k]]]) <= g.cap
  ELSE Len(jobs) <= g.size
\* a job with unfinished blockers (no row on disk) is included only with try-add-blocked and all of them in the batch
BatchBlockedOk(S, jobs, rows) ==
  \A j \in ToSet(jobs) :
     LET unfinished == BlkOf(S, j) \ rows IN
     unfinished = {} \/ (Grp(S, j).tryadd /\ unfinished \subseteq ToSet(jobs))
\* what is handed to the node as "still to wait for" must cover the unfinished blockers
BatchHandoverOk(S, jobs, hb, rows) ==
  \A k \in 1..Len(jobs) : (BlkOf(S, jobs[k]) \ rows) \subseteq ToSet(hb[k])

CfgPart(s) == <<s.sub, s.nsub, s.ndone, s.complete, s.canceled>>
JsPart(s) == <<s.st, s.rem, s.ids, s.bidx>>

BatchChecks(S, m, e) ==
  LET jobs == e.jobs
      rows == ToSet(e.rows)
      known == \A j \in ToSet(jobs) : j \in JobsOf(S)
      ne == Len(jobs) >= 1 /\ known
      a == Check(m, "BatchNonEmpty", TRUE, Len(jobs) >= 1)
      b == Check(a, "BatchJobsKnown", TRUE, known)
      c == Check(b, "OneGroup", ne, BatchGroupOk(S, jobs))
      d == Check(c, "BatchSizeOrTime", ne, BatchSizeOk(S, jobs))
      f == Check(d, "BlockedOnlyWithAllBlockers", known, BatchBlockedOk(S, jobs, rows))
      g == Check(f, "HandoverCoversUnfinished", known /\ Len(e.hb) = Len(jobs), BatchHandoverOk(S, jobs, e.hb, rows))
  IN g

-----------------------------------------------------------------------------
\* ---- C13: which jobs a resubmission reruns
RECURSIVE Closure(_, _)
Closure(S, X) == LET Y == X \cup {j \in JobsOf(S) : BlkOf(S, j) \cap X # {}} IN IF Y = X THEN X ELSE Closure(S, Y)
SumClass(r) == IF r[3] = "canceled" THEN "canceled" ELSE IF r[2] = 0 THEN "successful" ELSE "failed"
Selected(S, m, fl) ==
  LET res == m.lastSummary.res
      byClass(c) == {res[k][1] : k \in {x \in 1..Len(res) : SumClass(res[x]) \in c}}
  IN (IF fl.failed THEN byClass({"failed", "canceled"}) ELSE {})
     \cup (IF fl.successful THEN byClass({"successful"}) ELSE {})
     \cup (IF fl.missing THEN ToSet(m.lastSummary.missing) ELSE {})
Keep(m) == <<m.st.st, m.st.rem, m.st.nsub, m.st.ndone, m.st.complete, m.st.canceled, m.st.sub>>

OnProc(S, m, e) ==
  LET quiet == m.hasSt /\ m.active = 0 /\ m.st.sub = "" /\ ~m.st.complete
      m1 == [m EXCEPT !.kind = (e.pid :> e.k) @@ @, !.alive = @ \cup {e.pid}, !.pbatch = (e.pid :> e.b) @@ @]
  IN IF e.k = "try-submit-jobs"
       THEN [m1 EXCEPT !.rounds = (e.pid :> [quiet |-> quiet, nsb |-> m.okSbatch, promoted |-> FALSE]) @@ @]
     ELSE IF e.k = "resubmit-jobs" /\ m.hasSt
       THEN IF m.st.complete
              THEN [m1 EXCEPT !.rerun = Closure(S, Selected(S, m, e.fl)), !.resubPending = @ \cup {e.pid}, !.resubSeen = TRUE]
              ELSE [m1 EXCEPT !.refused = (e.pid :> <<Keep(m), FALSE>>) @@ @]
     ELSE m1

OnExit(S, m, e) ==
  LET p == e.pid
      isRound == p \in DOMAIN m.rounds
      \* C10/C13: a jade command (not a scripted handle of the focused C10 runs) that ends normally does not take the role with it (nobody else could ever act again: every later
      \* try-submit-jobs, resubmit-jobs or cancel-jobs is refused)
      m0 == Check(m, "RoleGivenBackAtExit", FaultFree(m) /\ e.exc \in {"", "SystemExit"} /\ m.holder = p /\ m.hasSt
                    /\ e.k \in {"submit-jobs", "try-submit-jobs", "resubmit-jobs", "cancel-jobs"}, m.st.sub = "")
      m1 == [m0 EXCEPT !.alive = @ \ {p}, !.holder = IF @ = p THEN 0 ELSE @]
      \* C05: a recovery round started at quiescence hands over a batch or completes
      m2 == Check(m1, "QuiescentRoundProgress",
                  isRound /\ m.rounds[p].quiet /\ m.rounds[p].promoted /\ FaultFree(m) /\ ~AnyDry(S),
                  m.okSbatch > m.rounds[p].nsb \/ m.st.complete)
      \* C11: a round whose scheduler query failed leaves no trace: role given back, no marker, job status as it found it
      m3 == Check(m2, "SqueueFailureHarmless", p \in m.sqfail /\ p \in DOMAIN m.atPromo /\ ~m.otherFaults,
                  m.st.sub = "" /\ ~m.marker /\ JsPart(m.st) = m.atPromo[p])
      m4 == Check(m3, "NodeTeardownOncePerBatch",
                  e.k = "run-jobs" /\ S.hooks.nteardown /\ p \in DOMAIN m.pbatch /\ ~m.faulty /\ m.pbatch[p] \notin m.killedB,
                  e.exc = "" /\ HookCount(m, "nteardown", m.pbatch[p]) = 1)
      m5 == Check(m4, "RunnerEndsClean", e.k = "run-jobs" /\ p \in DOMAIN m.pbatch /\ ~m.faulty /\ m.pbatch[p] \notin m.killedB
                      /\ (S.hooks.nsetup \/ S.hooks.nteardown), e.exc = "")
      \* C05/C16: a batch that ran to its end hands over to the distributed submitter -- the runner starts its own
      \* `try-submit-jobs` before it exits, whatever the jobs' and the node commands' exit codes were (otherwise the batch's
      \* results wait in the node file until somebody else happens to run a round)
      m5b == Check(m5, "NodeRoundAfterBatch",
                   e.k = "run-jobs" /\ p \in DOMAIN m.pbatch /\ ~m.faulty /\ ~m.nodefault /\ m.pbatch[p] \notin m.killedB
                     /\ S.dist /\ S.mode = "hpc",
                   \E x \in DOMAIN m.kind : x # p /\ m.kind[x] = "try-submit-jobs" /\ x \in DOMAIN m.pbatch /\ m.pbatch[x] = m.pbatch[p])
      \* C13: resubmit-jobs on an incomplete submission refuses and leaves jobs, counters, submitter field and lock alone
      m6 == Check(m5b, "RefuseLeavesUnchanged", p \in DOMAIN m.refused /\ ~m.refused[p][2],
                  Keep(m) = m.refused[p][1] /\ ~e.clock /\ e.code # 0 /\ e.exc \in {"", "SystemExit"})
      \* C08: "reported as newly completed to a submitter round" -- the round acts on the report: when a submitter-type
      \* command ends normally and the role is free (nobody is in the middle of a round), every row a collection has
      \* returned so far is recorded as completed in the persisted status (a row that a round collected and then dropped on
      \* the way to its status update was reported to nobody: the job stays "submitted" for ever)
      m7 == Check(m6, "ReportedRowsRecorded",
                  e.k \in {"submit-jobs", "try-submit-jobs", "resubmit-jobs"} /\ e.exc = "" /\ FaultFree(m) /\ ~m.sqlie
                    /\ m.hasSt /\ m.st.sub = "" /\ S.mode = "hpc",
                  \A r \in m.reported : r[1] \in DOMAIN m.st.st => m.st.st[r[1]] = 2)
  IN m7

OnCfgBatch(S, m, e) ==
  LET b == e.b
      m1 == Check(m, "FreshBatchIndex", TRUE, b \notin m.usedIdx /\ ~e.rewrite)
      m2 == Check(m1, "OnePlacement", TRUE,
                  IsInj(e.jobs) /\ \A j \in ToSet(e.jobs) \cap JobsOf(S) : m.placed[j] \subseteq {b})
      m3 == BatchChecks(S, m2, e)
  IN [m3 EXCEPT !.usedIdx = @ \cup {b},
                !.bjobs = (b :> e.jobs) @@ @,
                !.cfgseq = Append(@, e.jobs),
                !.placed = [j \in JobsOf(S) |-> IF j \in ToSet(e.jobs) THEN @[j] \cup {b} ELSE @[j]]]

OnSbatch(S, m, e) ==
  LET b == e.b
      hasg == Len(e.jobs) >= 1 /\ e.jobs[1] \in JobsOf(S)
      g == Grp(S, e.jobs[1])
      m0 == IF e.ok THEN m ELSE [m EXCEPT !.nodefault = TRUE]
      m1 == Check(m0, "SbatchMatchesConfig", TRUE, b \in DOMAIN m.bjobs /\ m.bjobs[b] = e.jobs)
      m2 == Check(m1, "OnePlacement", TRUE,
                  IsInj(e.jobs) /\ \A j \in ToSet(e.jobs) \cap JobsOf(S) : m.placed[j] \subseteq {b})
      m3 == Check(m2, "NoSbatchAfterComplete", e.ok, ~(m.hasSt /\ m.st.complete))
      m4 == Check(m3, "NoSbatchAfterCancel", e.ok, ~m.cancelSeen)
      m5 == Check(m4, "NodesBound", e.ok /\ S.maxnodes > 0 /\ ~m.sqlie, e.active <= S.maxnodes)
      m6 == Check(m5, "GroupOptions", hasg, e.opts = g.opts /\ e.run = g.run)
      m7 == Check(m6, "DryRunNoSbatch", hasg, ~g.dry)
      m8 == BatchChecks(S, m7, e)
      m9 == Check(m8, "SetupBeforeJobs", S.hooks.setup /\ m.epoch = 0, HookCount(m, "setup", -1) = 1)
  IN [m9 EXCEPT !.okSbatch = IF e.ok THEN @ + 1 ELSE @,
                !.anyHandOver = TRUE,
                !.active = e.active,
                !.bstate = IF e.ok THEN (b :> "pending") @@ @ ELSE @,
                !.placed = [j \in JobsOf(S) |-> IF j \in ToSet(e.jobs) THEN @[j] \cup {b} ELSE @[j]]]

OnHpc(S, m, e) ==
  LET m1 == Check(m, "NodesBound", S.maxnodes > 0 /\ ~m.sqlie, e.active <= S.maxnodes)
      \* "walltime": the scheduler ended a batch whose runner did nothing but sleep (no job running, queued jobs never
      \* becoming runnable) -- that is a consequence of what JADE did, not an injected fault
      bad == e.what \in {"kill", "timeout", "cancel"}
  IN [m1 EXCEPT !.active = e.active,
                !.nodefault = @ \/ bad,
                !.killedB = IF bad \/ e.what = "walltime" THEN @ \cup {e.b} ELSE @,
                !.bstate = (e.b :> (CASE e.what = "start" -> "running" [] e.what = "end" -> "ended" [] OTHER -> "killed")) @@ @]

OnLaunch(S, m, e) ==
  LET j == e.job
      known == j \in JobsOf(S)
      g == Grp(S, j)
      limit == IF g.procs > 0 THEN g.procs ELSE S.cpus
      rows == ToSet(e.rows)
      m1 == Check(m, "LaunchKnownJob", TRUE, known)
      m2 == Check(m1, "OneLaunch", known, m.launches[j] = 0)
      m3 == Check(m2, "StartAfterBlockers", known /\ S.blk[j] # <<>>, BlkOf(S, j) \subseteq rows)
      m4 == Check(m3, "ProcsBound", known, e.live <= limit)
      m5a == Check(m4, "CanceledNeverRuns", known, j \notin m.canceledJ)
      \* C04 in every epoch: a job carrying the flag is started only if none of the blockers that (re)ran in this epoch has
      \* failed or was canceled -- otherwise it has to be canceled, not run (in later epochs only the rerun blockers count:
      \* resubmit-jobs makes a rerun job wait only for them)
      m5 == Check(m5a, "FlaggedWaitsForCleanBlockers", known /\ S.flag[j] /\ ~m.faulty /\ ~m.nodefault,
                  \A k \in BlkOf(S, j) : (m.epoch = 0 \/ k \in m.rerun) => ~(k \in DOMAIN m.res /\ RFailed(m.res[k])))
      m6 == Check(m5, "DryRunNoLaunch", known, ~g.dry)
      m7 == Check(m6, "LaunchInOwnBatch", known /\ e.b >= 0, e.b \in DOMAIN m.bjobs /\ j \in ToSet(m.bjobs[e.b]))
      m8 == Check(m7, "RerunExactly", known /\ m.epoch > 0, j \in m.rerun)
      m9 == Check(m8, "NodeSetupBeforeJobs", S.hooks.nsetup, HookCount(m, "nsetup", e.b) = 1)
      mA == Check(m9, "SetupBeforeJobs", S.hooks.setup /\ m.epoch = 0, HookCount(m, "setup", -1) = 1)
  IN IF known THEN [mA EXCEPT !.launches[j] = @ + 1, !.anyHandOver = TRUE] ELSE mA

OnJobExit(S, m, e) == [m EXCEPT !.exited = (e.job :> e.rc) @@ @]

OnAppend(S, m, e) ==
  LET r == e.row
      j == RName(r)
      known == j \in JobsOf(S)
      fin == r[3] = "finished"
      can == r[3] = "canceled"
      blockerBad == \E k \in BlkOf(S, j) : k \in DOMAIN m.res /\ RFailed(m.res[k])
      m1 == Check(m, "ResultKnownJob", TRUE, known)
      m2 == Check(m1, "NoFabricatedResult", known /\ fin, j \in DOMAIN m.exited /\ ToString(m.exited[j]) = r[2])
      m3 == Check(m2, "ResultStatusKnown", TRUE, fin \/ can)
      m4 == Check(m3, "CanceledShape", can, RFailed(r))
      m5 == Check(m4, "CanceledNeverRuns", known /\ can, m.launches[j] = 0)
      m6 == Check(m5, "CanceledOnlyIf", known /\ can, S.flag[j] /\ blockerBad)
      m7 == Check(m6, "OneResultPerJob", known, j \notin DOMAIN m.res)
  IN [m7 EXCEPT !.intents = @ \cup {r},
                !.res = (j :> r) @@ @,
                !.canceledJ = IF can THEN @ \cup {j} ELSE @]

OnAppended(S, m, e) == [m EXCEPT !.appended = @ \cup {e.row}]

\* all rows on disk at an aggregator-lock release
RECURSIVE CatNode(_)
CatNode(s) == IF s = <<>> THEN <<>> ELSE s[1][2] \o CatNode(Tail(s))
AllRowsSeq(e) == e.proc \o CatNode(e.node)

OnRows(S, m, e) ==
  LET all == AllRowsSeq(e)
      allset == ToSet(all)
      m1 == Check(m, "ProcessedParses", TRUE, e.ok)
      m2 == Check(m1, "RowsIntact", TRUE, allset \subseteq m.intents)
      m3 == Check(m2, "RowsNotDuplicated", TRUE, IsInj(all))
      m4 == Check(m3, "RowsNeverLost", TRUE, \A r \in m.appended : r \in allset)
  IN [m4 EXCEPT !.nodeEmpty = (CatNode(e.node) = <<>>)]

OnCollected(S, m, e) ==
  LET rs == ToSet(e.rows)
      m1 == Check(m, "EachRowReportedOnce", TRUE, IsInj(e.rows) /\ rs \cap m.reported = {})
      m2 == Check(m1, "ReportedRowsReal", TRUE, rs \subseteq m.intents)
  IN [m2 EXCEPT !.reported = @ \cup rs]

OnStatus(S, m, e) ==
  LET J == JobsOf(S)
      prev == m.st
      has == m.hasSt
      rows == ToSet(e.rows)
      sameJobs == DOMAIN e.st = J /\ DOMAIN e.rem = J
      done == {j \in J : e.st[j] = 2}
      subm == {j \in J : e.st[j] >= 1}
      isResub == has /\ prev.complete /\ ~e.complete /\ e.pid \in DOMAIN m.kind /\ m.kind[e.pid] = "resubmit-jobs"
      cont == has /\ ~isResub            \* same epoch as the previous status
      becameComplete == e.complete /\ (~has \/ ~prev.complete)
      leftover == {j \in J : e.st[j] = 0 /\ e.rem[j] = <<>>}
      acquired == e.sub # "" /\ (~has \/ prev.sub = "")
      released == e.sub = "" /\ has /\ prev.sub # ""
      a01 == Check(m,   "StatusJobsMatchConfig", TRUE, sameJobs /\ e.njobs = Cardinality(J))
      a02 == Check(a01, "CountersOrdered", TRUE, e.ndone <= e.nsub /\ e.nsub <= e.njobs)
      a03 == Check(a02, "CompletedMatchesDone", sameJobs, e.ndone = Cardinality(done))
      a04 == Check(a03, "SubmittedMatchesStates", sameJobs, e.nsub = Cardinality(subm))
      a05 == Check(a04, "DoneHasResult", sameJobs, done \subseteq rows)
      a06 == Check(a05, "VersionFilesAgree", TRUE, e.cver = e.cverf /\ e.jver = e.jverf)
      a07 == Check(a06, "SubmittedHasNoBlockers", sameJobs, \A j \in subm : e.rem[j] = <<>>)
      a08 == Check(a07, "VersionsNeverDecrease", has, e.cver >= prev.cver /\ e.jver >= prev.jver)
      a09 == Check(a08, "VersionsIncreaseWithChange", has,
                   (CfgPart(e) # CfgPart(prev) => e.cver > prev.cver) /\ (JsPart(e) # JsPart(prev) => e.jver > prev.jver))
      a10 == Check(a09, "CountersMonotone", cont, e.nsub >= prev.nsub /\ e.ndone >= prev.ndone)
      a11 == Check(a10, "StateAdvances", cont /\ sameJobs /\ DOMAIN prev.st = J, \A j \in J : e.st[j] >= prev.st[j])
      a12 == Check(a11, "BlockersShrink", cont /\ sameJobs /\ DOMAIN prev.rem = J,
                   \A j \in J : ToSet(e.rem[j]) \subseteq ToSet(prev.rem[j]))
      a13 == Check(a12, "CompleteSticky", cont /\ prev.complete, e.complete)
      a14 == Check(a13, "BatchIndexMonotone", has, e.bidx >= prev.bidx)
      \* C10
      a15a == Check(a14, "OneSubmitter", has /\ prev.sub # "" /\ e.sub # "", e.sub = prev.sub)
      \* the role is given back only by the process that holds it (a command that was refused the role leaves it alone)
      a15 == Check(a15a, "RoleReleasedByHolder", released /\ ~m.faulty /\ m.holder # 0, e.pid = m.holder)
      \* C06/C18: a round that ends normally leaves every batch that is still pending or running on the scheduler in the
      \* recorded HPC ids (a batch that is active and forgotten no longer counts against max-nodes, and nobody waits for its
      \* results: "never treated as finished")
      a15b == Check(a15, "ActiveBatchesTracked", released /\ FaultFree(m) /\ ~m.sqlie /\ S.mode = "hpc" /\ ~m.cancelSeen,
                    \A b \in DOMAIN m.bstate : m.bstate[b] \in {"pending", "running"} => b \in ToSet(e.idb))
      \* C05
      a16 == Check(a15b, "CompleteHasAllResults",
                   becameComplete /\ FaultFree(m) /\ ~AnyDry(S) /\ ~m.cancelSeen /\ ~e.canceled /\ Acyclic(S) /\ m.epoch = 0,
                   J \subseteq rows)
      \* ... "has a result" as the user sees it: the summary written before the flag lists every job, none missing (a row
      \* that sits uncollected in a node file when the flag is set is never collected afterwards)
      a16b == Check(a16, "CompleteSummaryHasAll",
                    becameComplete /\ FaultFree(m) /\ ~AnyDry(S) /\ ~m.cancelSeen /\ ~e.canceled /\ Acyclic(S) /\ m.epoch = 0
                      /\ m.summaries >= 1,
                    m.lastSummary.missing = <<>> /\ {m.lastSummary.res[k][1] : k \in 1..Len(m.lastSummary.res)} = J)
      a17 == Check(a16b, "SummaryBeforeFlag", becameComplete, m.summaries >= 1)
      a18 == Check(a17, "CompleteOnce", becameComplete, m.completions = 0)
      a18b == Check(a18, "TeardownBeforeCompleteFlag", becameComplete /\ S.hooks.teardown, HookCount(m, "teardown", -1) = 1)
      a19 == Check(a18b, "NoIdleLeftover",
                   sameJobs /\ e.marker /\ has /\ ~m.faulty /\ ~m.nodefault /\ ~e.canceled /\ ~AnyDry(S)
                     /\ JsPart(e) # JsPart(prev) /\ leftover # {},
                   S.maxnodes > 0 /\ Len(e.ids) >= S.maxnodes)
      \* C05: no persisted status makes a job wait for a job that is already done (nobody will ever clear that blocker: the
      \* submitter removes a blocker only in the round that collects its result) -- first submission or resubmission alike
      a19b == Check(a19, "WaitsOnlyForUnfinished", sameJobs /\ FaultFree(m),
                    \A j \in J : e.st[j] = 0 => \A b \in ToSet(e.rem[j]) : b \in J => e.st[b] # 2)
      notRerun(r) == r[1] \notin m.rerun
      b19 == IF isResub
               THEN [a19b EXCEPT !.launches = [j \in J |-> 0], !.placed = [j \in J |-> {}],
                                !.res = [j \in (DOMAIN @) \ m.rerun |-> @[j]],
                                !.appended = {r \in @ : notRerun(r)}, !.intents = {r \in @ : notRerun(r)},
                                !.reported = {r \in @ : notRerun(r)}, !.canceledJ = @ \ m.rerun,
                                !.exited = [j \in (DOMAIN @) \ m.rerun |-> @[j]],
                                !.faulty = FALSE, !.nodefault = FALSE, !.otherFaults = FALSE, !.killedB = {},
                                !.prevSummary = m.lastSummary.res, !.anyHandOver = FALSE]
               ELSE a19b
      \* a refused resubmit-jobs is only held to "unchanged" if nobody else wrote meanwhile
      c19 == [b19 EXCEPT !.refused = [p \in DOMAIN @ |-> IF p \in m.alive /\ e.pid # p /\ Keep([m EXCEPT !.st = [k \in DOMAIN NoStatus |-> e[k]]]) # Keep(m)
                                                          THEN <<@[p][1], TRUE>> ELSE @[p]]]
  IN [c19 EXCEPT !.st = [k \in DOMAIN NoStatus |-> e[k]],
                 !.hasSt = TRUE,
                 !.epoch = IF isResub THEN @ + 1 ELSE @,
                 !.completions = IF isResub THEN 0 ELSE IF becameComplete THEN @ + 1 ELSE @,
                 !.summaries = IF isResub THEN 0 ELSE @,
                 !.cancelSeen = @ \/ e.canceled,
                 !.holder = IF acquired THEN e.pid ELSE IF released THEN 0 ELSE @]

OnPromote(S, m, e) ==
  LET m1 == Check(m, "PromotionRefusedWhileHeld", ~e.create /\ e.exc = "" /\ e.before # "", ~e.ok /\ e.after = e.before)
      m2 == Check(m1, "PromotionGrantedOnlyWhenFree", ~e.create /\ e.ok, e.before = "" /\ e.after = e.host)
      isCancel == e.ok /\ e.pid \in DOMAIN m.kind /\ m.kind[e.pid] = "cancel-jobs"
      \* the cancel is in effect from the moment cancel-jobs holds the submitter role on a submission that is not complete:
      \* whatever it finds (active batches or none), nothing is handed to the HPC any more
      m3 == IF isCancel THEN [m2 EXCEPT !.activeAtCancel = {b \in DOMAIN m.bstate : m.bstate[b] \in {"pending", "running"}},
                                        !.cleanAtCancel = FaultFree(m),
                                        !.cancelSeen = @ \/ (m.hasSt /\ ~m.st.complete)]
            ELSE m2
      m4 == IF e.ok /\ m.hasSt THEN [m3 EXCEPT !.atPromo = (e.pid :> JsPart(m.st)) @@ @] ELSE m3
  IN IF e.ok /\ e.pid \in DOMAIN m4.rounds THEN [m4 EXCEPT !.rounds[e.pid].promoted = TRUE] ELSE m4

Class(r) == IF r[3] = "canceled" THEN "canceled" ELSE IF r[2] = 0 THEN "successful" ELSE "failed"

OnSummary(S, m, e) ==
  LET J == JobsOf(S)
      names == [k \in 1..Len(e.res) |-> e.res[k][1]]
      nset == ToSet(names)
      miss == ToSet(e.missing)
      cls(j) == LET k == CHOOSE k \in 1..Len(e.res) : e.res[k][1] = j IN Class(e.res[k])
      nS == Cardinality({k \in 1..Len(e.res) : Class(e.res[k]) = "successful"})
      nF == Cardinality({k \in 1..Len(e.res) : Class(e.res[k]) = "failed"})
      nC == Cardinality({k \in 1..Len(e.res) : Class(e.res[k]) = "canceled"})
      allran == FaultFree(m) /\ ~m.cancelSeen /\ ~AnyDry(S) /\ Acyclic(S)
      full == nset = J /\ IsInj(names)
      \* C05: completion happens once -- the completion sequence (which writes results.json) never runs on a submission
      \* whose completion flag is already set
      a0 == Check(m,  "SummaryOnlyBeforeFlag", TRUE, ~(m.hasSt /\ m.st.complete))
      a1 == Check(a0, "OneEntryPerJob", TRUE, IsInj(names) /\ nset \subseteq J)
      a2 == Check(a1, "MissingExact", TRUE, miss = J \ nset /\ IsInj(e.missing))
      a3 == Check(a2, "TallyPartition", TRUE,
                  e.tally = <<nS, nF, nC, Len(e.missing)>> /\ nS + nF + nC + Len(e.missing) = Cardinality(J))
      \* (after a partial resubmission the untouched jobs keep whatever they had: the DAG reference speaks about epoch 0)
      a4 == Check(a3, "FinalResultsComplete", allran /\ m.epoch = 0, nset = J /\ miss = {})
      a5 == Check(a4, "FinalResultsMatchReference", allran /\ full /\ m.epoch = 0, \A j \in J : cls(j) = S.ref[j])
      a6 == Check(a5, "FinishedKeepResults", m.epoch = 0 /\ ~m.sqlie, \A r \in m.appended : r[1] \in nset)
      a7 == Check(a6, "CanceledIff", allran /\ full /\ m.epoch = 0,
                  \A j \in J : (cls(j) = "canceled") <=>
                      (S.flag[j] /\ \E k \in BlkOf(S, j) : cls(k) \in {"failed", "canceled"}))
      a8 == Check(a7, "RanExactlyOnceUnlessCanceled", allran /\ full /\ m.epoch = 0,
                  \A j \in J : m.launches[j] = (IF cls(j) = "canceled" THEN 0 ELSE 1))
      \* C04 second half, stated without assuming the results are complete: a job that the DAG reference does not cancel
      \* (no flag, or no failed/canceled blocker) was started -- whatever its blockers' outcomes were
      a8b == Check(a8, "NotCanceledRuns", allran /\ m.epoch = 0,
                   \A j \in J : S.ref[j] \in {"successful", "failed"} => m.launches[j] >= 1)
      a9 == Check(a8b, "FinalPlacement", allran /\ full /\ m.epoch = 0 /\ S.mode = "hpc",
                  \A j \in J : IF cls(j) = "canceled" THEN Cardinality(m.placed[j]) <= 1 ELSE Cardinality(m.placed[j]) = 1)
      \* C01's last sentence without assuming complete results: in a completed fault-free submission every job was handed
      \* over in a batch or has a canceled entry -- none was silently left out
      a9b == Check(a9, "PlacedOrCanceled", allran /\ m.epoch = 0 /\ S.mode = "hpc" /\ IsInj(names),
                   \A j \in J : m.placed[j] # {} \/ (j \in nset /\ cls(j) = "canceled"))
      a10 == Check(a9b, "AllRowsReported", allran /\ S.mode = "hpc",
                  \A r \in m.appended : (r[3] = "finished" => r \in m.reported))
      \* C11: after a transient failure of the scheduler's status query the following rounds proceed normally --
      \* the run ends with the same complete results as a run without that failure
      sqOnly == m.faulty /\ ~m.otherFaults /\ ~m.nodefault /\ ~m.cancelSeen /\ ~AnyDry(S) /\ Acyclic(S) /\ m.epoch = 0
      a10b == Check(a10, "AfterSqueueFaultNormal", sqOnly,
                    nset = J /\ miss = {} /\ IsInj(names) /\ \A j \in J : cls(j) = S.ref[j])
      a11 == Check(a10b, "RerunAllFresh", allran /\ m.epoch > 0 /\ IsInj(names),
                   \A j \in m.rerun : j \in nset /\ m.launches[j] = (IF cls(j) = "canceled" THEN 0 ELSE 1))
      \* C04 per epoch, independent of the schedule: among the rerun jobs, canceled exactly when flagged and some blocker that
      \* was itself rerun failed or was canceled in this epoch
      a11b == Check(a11, "RerunCanceledIff", allran /\ m.epoch > 0 /\ IsInj(names) /\ m.rerun \subseteq nset,
                    \A j \in m.rerun : (cls(j) = "canceled") <=>
                        (S.flag[j] /\ \E k \in BlkOf(S, j) \cap m.rerun : cls(k) \in {"failed", "canceled"}))
      \* same name, return code, status and times (the HPC id is not part of what must be preserved)
      a12 == Check(a11b, "UntouchedPreserved", m.epoch > 0,
                   \A k \in 1..Len(m.prevSummary) : m.prevSummary[k][1] \notin m.rerun =>
                      \E x \in 1..Len(e.res) : SubSeq(e.res[x], 1, 5) = SubSeq(m.prevSummary[k], 1, 5))
      a13 == Check(a12, "UntouchedNotRerun", m.epoch > 0, \A j \in J \ m.rerun : m.launches[j] = 0)
      \* C05: the completion work (summary, teardown, reports, flag) is done once per completion: without faults nobody
      \* writes a second summary in the same epoch (the role is held from the completion check to the flag)
      a14 == Check(a13, "CompletionWorkOnce", FaultFree(m) /\ ~m.sqlie, m.summaries = 0)
  IN [a14 EXCEPT !.summaries = @ + 1, !.lastSummary = [res |-> e.res, missing |-> e.missing, tally |-> e.tally]]

\* one Cluster API operation by a handle (focused C10 runs): versions of the handle's copies and of the files when
\* the operation got the lock, the exception it raised, whether any of the four files changed
OnCop(S, m, e) ==
  LET \* out of date: somebody changed the state since this handle's copy was loaded or last written -- the version
      \* file (dcver/djver) or the data file itself (ddcver/ddjver; they differ from the version files only after a
      \* process was killed between the two writes of one update) shows another version than the copy
      staleC == e.loaded /\ e.wcfg /\ (e.hcver # e.dcver \/ e.hcver # e.ddcver)
      staleJ == e.loaded /\ e.wjs /\ (e.hjver # e.djver \/ e.hjver # e.ddjver)
      mism == e.exc \in {"ConfigVersionMismatch", "JobStatusVersionMismatch"}
      \* a stale handle changes nothing on disk; if its operation got as far as writing, it ends with the mismatch error
      \* (an operation that decides from its copy not to write at all, e.g. promote on a copy that shows a submitter,
      \* returns normally)
      m1 == Check(m, "StaleWriteRejected", (staleC \/ staleJ) /\ e.exc # "Timeout", ~e.changed /\ (mism \/ e.exc = ""))
      m2 == Check(m1, "PromotionRefusedWhileHeld", e.op \in {"loadp"} /\ e.before # "" /\ e.exc = "", ~e.ok /\ ~e.changed)
      m3 == Check(m2, "PromotionGrantedOnlyWhenFree", e.ok, e.before = "")
      m4 == Check(m3, "OneSubmitter", e.ok, m.holder \in {0, e.pid})
  IN IF e.op = "recreate"
       \* the output directory was removed and the submission created anew (submit-jobs --force): its creator holds the
       \* role of the new submission; the old one, and whoever held its role, is history
       THEN [m EXCEPT !.holder = e.pid]
       ELSE [m4 EXCEPT !.holder = IF e.ok THEN e.pid
                                  ELSE IF e.op = "demote" /\ e.exc = "" /\ @ = e.pid THEN 0 ELSE @]

\* C16: lifecycle commands
OnHook(S, m, e) ==
  LET w == e.which
      rows == ToSet(e.rows)
      bj == IF e.b \in DOMAIN m.bjobs THEN ToSet(m.bjobs[e.b]) ELSE JobsOf(S)     \* local mode: the one "batch" is everything
      a1 == Check(m,  "HookConfigured", TRUE, S.hooks[w])
      \* the documented environment: the runtime output directory, and on a node the submission group *of that node's batch*
      a2 == Check(a1, "HookEnv", TRUE,
                  e.envok /\ (w \in {"nsetup", "nteardown"} =>
                                 /\ e.grp \in DOMAIN S.groups
                                 /\ (S.mode = "hpc" /\ e.b \in DOMAIN m.bjobs => \A j \in ToSet(m.bjobs[e.b]) \cap JobsOf(S) : S.grp[j] = e.grp)))
      a3 == Check(a2, "SetupOnceBeforeFirstHandOver", w = "setup", HookCount(m, "setup", e.b) = 0 /\ ~m.anyHandOver /\ m.epoch = 0)
      a4 == Check(a3, "TeardownOncePerCompletion", w = "teardown",
                  HookCount(m, "teardown", e.b) = 0 /\ ~(m.hasSt /\ m.st.complete) /\ m.summaries >= 1)
      a5 == Check(a4, "TeardownAfterAllOutcomes", w = "teardown" /\ FaultFree(m) /\ ~m.cancelSeen /\ Acyclic(S), JobsOf(S) \subseteq rows)
      a6 == Check(a5, "NodeSetupOncePerBatch", w = "nsetup", HookCount(m, "nsetup", e.b) = 0)
      a7 == Check(a6, "NodeTeardownAfterJobs", w = "nteardown",
                  HookCount(m, "nteardown", e.b) = 0 /\ e.live = 0 /\ (FaultFree(m) => bj \subseteq rows))
  IN [a7 EXCEPT !.hooks = Append(@, <<w, e.b, m.epoch>>)]

OnFault(S, m, e) == [m EXCEPT !.faulty = TRUE, !.otherFaults = TRUE]
OnNodeKill(S, m, e) == [m EXCEPT !.nodefault = TRUE]
OnMarker(S, m, e) == [m EXCEPT !.marker = e.on]
\* a failed attempt that JADE's own retry then gets answered is not a failed query: the round goes on normally
OnSqueue(S, m, e) == IF e.ok THEN [m EXCEPT !.sqfail = @ \ {e.pid}] ELSE [m EXCEPT !.faulty = TRUE, !.sqfail = @ \cup {e.pid}]
OnSqLie(S, m, e) == [m EXCEPT !.faulty = TRUE, !.otherFaults = TRUE, !.sqlie = TRUE]
OnScancel(S, m, e) == [m EXCEPT !.scancelled = @ \cup {e.b}]

\* C20 on a whole submission (incl. resubmissions): the consolidated event summary a user is shown holds every event that
\* any process logged, by name, exactly once
OnEventsObs(S, m, e) ==
  Check(m, "EventsLosslessInSummary", ~m.faulty /\ ~m.nodefault, ToSet(e.summary) = ToSet(e.logged))

OnEnd(S, m, e) ==
  LET \* C05 (bounded form of eventual completion on the real code)
      m1 == Check(m, "CompletesAfterRecovery",
                  e.full /\ S.mode = "hpc" /\ (~m.faulty \/ ~m.otherFaults) /\ ~AnyDry(S) /\ m.hasSt, m.st.complete)
      \* C08, second half: when no node file holds rows any more, every result a runner wrote has been reported as newly
      \* completed to some submitter round (a row that reached the consolidated file by another way was reported to nobody)
      m1b == Check(m1, "CollectedRowsReported", m.nodeEmpty /\ ~m.faulty /\ ~m.nodefault,
                   \A r \in m.appended : r[3] = "finished" => r \in m.reported)
      m2 == Check(m1b, "ActiveBatchesCancelled", m.cancelSeen /\ m.cleanAtCancel, m.activeAtCancel \subseteq m.scancelled)
      m2z == Check(m2, "NoDeadEnd", e.full /\ m.resubSeen /\ ~m.faulty /\ S.mode = "hpc" /\ m.hasSt, m.st.complete)
      \* local mode: the one process runs everything; with or without lifecycle commands the results get recorded
      m2a == Check(m2z, "LocalRunRecordsResults", e.full /\ S.mode = "local" /\ ~m.faulty, m.summaries >= 1)
      m2b == Check(m2a, "LocalHooksOnce", e.full /\ S.mode = "local" /\ ~m.faulty,
                   /\ (S.hooks.nsetup => HookCount(m, "nsetup", -1) = 1)
                   /\ (S.hooks.nteardown => HookCount(m, "nteardown", -1) = 1)
                   /\ (S.hooks.setup => HookCount(m, "setup", -1) = 1)
                   /\ (S.hooks.teardown => HookCount(m, "teardown", -1) = 1))
      \* C07: the dry run of a scenario writes the same first-round batches as the real run of the same scenario
      m3 == Check(m2b, "DryRunSame", S.hasfirst, m.cfgseq = S.firstround)
  IN [m3 EXCEPT !.ended = TRUE]

MonStepE(S, m0, e) ==
  LET m == [m0 EXCEPT !.pos = @ + 1] IN
  CASE e.e = "proc"      -> OnProc(S, m, e)
    [] e.e = "exit"      -> OnExit(S, m, e)
    [] e.e = "cfgbatch"  -> OnCfgBatch(S, m, e)
    [] e.e = "sbatch"    -> OnSbatch(S, m, e)
    [] e.e = "hpc"       -> OnHpc(S, m, e)
    [] e.e = "launch"    -> OnLaunch(S, m, e)
    [] e.e = "jobexit"   -> OnJobExit(S, m, e)
    [] e.e = "append"    -> OnAppend(S, m, e)
    [] e.e = "appended"  -> OnAppended(S, m, e)
    [] e.e = "rows"      -> OnRows(S, m, e)
    [] e.e = "collected" -> OnCollected(S, m, e)
    [] e.e = "status"    -> OnStatus(S, m, e)
    [] e.e = "promote"   -> OnPromote(S, m, e)
    [] e.e = "summary"   -> OnSummary(S, m, e)
    [] e.e = "squeue"    -> OnSqueue(S, m, e)
    [] e.e = "sqlie"     -> OnSqLie(S, m, e)
    [] e.e = "scancel"   -> OnScancel(S, m, e)
    [] e.e = "cop"       -> OnCop(S, m, e)
    [] e.e = "hook"      -> OnHook(S, m, e)
    [] e.e = "nodekill"  -> OnNodeKill(S, m, e)
    [] e.e = "marker"    -> OnMarker(S, m, e)
    [] e.e \in {"kill", "fault"} -> OnFault(S, m, e)     \* injected faults only; a lock timeout or a broken marker is
                                                         \* what the environment does with markers JADE itself left behind
    [] e.e = "eventsobs" -> OnEventsObs(S, m, e)
    \* the output directory was removed and is being created anew (submit-jobs --force; focused C10 runs): what the status files
    \* said before is history -- no continuity clause compares the new incarnation with the old one
    [] e.e = "recreated" -> [m EXCEPT !.hasSt = FALSE, !.holder = 0]
    [] e.e = "end"       -> OnEnd(S, m, e)
    [] OTHER             -> m

\* `resubmit-jobs -s FILE` replaces the groups' parameters (same group names): from then on "the group's parameters" are the
\* new ones -- batch size / time cap, try-add-blocked, processes per node, HPC options and run options (C06, C07)
Eff(S, m) == IF m.regrouped THEN [S EXCEPT !.groups = m.gover] ELSE S
MonStep(S, m0, e) ==
  IF e.e = "regroup" THEN [m0 EXCEPT !.pos = @ + 1, !.regrouped = TRUE, !.gover = e.groups]
  ELSE MonStepE(Eff(S, m0), m0, e)

RECURSIVE MonSteps(_, _, _)
MonSteps(S, m, es) == IF es = <<>> THEN m ELSE MonSteps(S, MonStep(S, m, Head(es)), Tail(es))

-----------------------------------------------------------------------------
\* The properties: which clauses make up each listed property.
ClausesOf(c) ==
  CASE c = "C01" -> {"OnePlacement", "FreshBatchIndex", "OneLaunch", "FinalPlacement", "SbatchMatchesConfig", "LaunchInOwnBatch", "LaunchKnownJob",
                     "PlacedOrCanceled"}
    \* (the hand-over is C02's second mechanism: a node starts a job as soon as the list it was handed is empty, so a batch
    \*  whose list omits a blocker without an outcome starts that job too early in some schedule)
    [] c = "C02" -> {"StartAfterBlockers", "HandoverCoversUnfinished"}
    [] c = "C03" -> {"FinalResultsComplete", "FinalResultsMatchReference", "OneEntryPerJob", "LocalRunRecordsResults"}
    [] c = "C04" -> {"CanceledShape", "CanceledNeverRuns", "CanceledOnlyIf", "CanceledIff", "RanExactlyOnceUnlessCanceled",
                     "NotCanceledRuns", "FlaggedWaitsForCleanBlockers", "RerunCanceledIff"}
    [] c = "C05" -> {"QuiescentRoundProgress", "NoIdleLeftover", "WaitsOnlyForUnfinished", "CompleteHasAllResults", "SummaryBeforeFlag", "CompleteOnce",
                     "SummaryOnlyBeforeFlag", "NodeRoundAfterBatch", "CompleteSummaryHasAll",
                     "NoSbatchAfterComplete", "CompletesAfterRecovery", "CompletionWorkOnce"}
    [] c = "C06" -> {"NodesBound", "ProcsBound", "ActiveBatchesTracked"}
    [] c = "C07" -> {"BatchNonEmpty", "BatchJobsKnown", "OneGroup", "BatchSizeOrTime", "BlockedOnlyWithAllBlockers",
                     "HandoverCoversUnfinished", "GroupOptions", "DryRunNoSbatch", "DryRunNoLaunch", "DryRunSame"}
    [] c = "C08" -> {"ProcessedParses", "RowsIntact", "RowsNotDuplicated", "RowsNeverLost", "EachRowReportedOnce",
                     "ReportedRowsReal", "AllRowsReported", "CollectedRowsReported", "ReportedRowsRecorded"}
    [] c = "C09" -> {"StatusJobsMatchConfig", "CountersOrdered", "CompletedMatchesDone", "SubmittedMatchesStates", "DoneHasResult",
                     "VersionFilesAgree", "SubmittedHasNoBlockers", "VersionsNeverDecrease", "VersionsIncreaseWithChange",
                     "CountersMonotone", "StateAdvances", "BlockersShrink", "CompleteSticky", "BatchIndexMonotone"}
    [] c = "C10" -> {"OneSubmitter", "PromotionRefusedWhileHeld", "PromotionGrantedOnlyWhenFree", "StaleWriteRejected",
                     "RoleReleasedByHolder", "RoleGivenBackAtExit"}
    [] c = "C11" -> {"OnePlacement", "OneLaunch", "StartAfterBlockers", "RowsNeverLost", "SqueueFailureHarmless", "FreshBatchIndex",
                     "CanceledNeverRuns", "AfterSqueueFaultNormal", "CompletesAfterRecovery"}
    [] c = "C12" -> {"MissingExact", "NoFabricatedResult", "FinishedKeepResults", "ResultKnownJob", "ResultStatusKnown", "OneResultPerJob",
                     "StartAfterBlockers", "CompletesAfterRecovery", "OneLaunch", "CanceledNeverRuns"}
    [] c = "C13" -> {"RerunExactly", "RerunAllFresh", "UntouchedPreserved", "UntouchedNotRerun", "OneEntryPerJob", "OneLaunch",
                     "StartAfterBlockers", "RefuseLeavesUnchanged", "NoDeadEnd", "RoleGivenBackAtExit", "RowsNeverLost", "FinalResultsMatchReference",
                     "FinalResultsComplete"}
    [] c = "C14" -> {"NoSbatchAfterCancel", "ActiveBatchesCancelled", "MissingExact", "FinishedKeepResults", "RowsNeverLost",
                     "NoFabricatedResult"}
    [] c = "C16" -> {"HookConfigured", "HookEnv", "SetupOnceBeforeFirstHandOver", "SetupBeforeJobs", "TeardownOncePerCompletion",
                     "TeardownAfterAllOutcomes", "TeardownBeforeCompleteFlag", "NodeSetupOncePerBatch", "NodeSetupBeforeJobs",
                     "NodeTeardownAfterJobs", "NodeTeardownOncePerBatch", "RunnerEndsClean", "FinalResultsComplete",
                     "CompletesAfterRecovery", "LocalRunRecordsResults", "LocalHooksOnce", "NodeRoundAfterBatch"}
    [] c = "C20" -> {"TallyPartition", "EventsLosslessInSummary"}
    [] OTHER -> {}

Holds(m, c) == m.viol \cap ClausesOf(c) = {}
=============================================================================
