---------------------------- MODULE JadeImplPath ----------------------------
(* Code -> model conformance for JadeImpl.  Paths (JSON, one per recorded run of the real code) are sequences of
   classified visible operations <<class, slot (, argument)>> in the order the harness scheduled them; classes:
     L   a cluster-lock critical section (Promote, Persist, CheckComplete, MarkComplete, Demote)
     P   a processed-results-lock operation (Glob, CancelPass with appends, Summary)
     Move, Poll, SubmitBatch, NodeInit, NodePoll, NodeTry, NodeEnd, StartBatch, JobExit, UserTry, End
   The specification must be able to take, for each entry, the corresponding action of that process -- after any
   number of the process' silent steps (MarkerTouch, NextGroup, MarkerRemove, and the variants of Poll / SubmitBatch /
   Persist / CancelPass / NodeInit that perform no visible operation), which TLC fills in.  When a path has been
   followed to its end the events the model emitted (elog) are printed for comparison with the observed ones;
   a path that cannot be followed is reported with the position where the model got stuck. *)
EXTENDS JadeImpl, IOUtils

Paths == JsonDeserialize(IOEnv.TRACE_FILE)
ASSUME TLCSet(1, 0)

VARIABLES tid, l
pvars == <<vars, tid, l>>

PInit ==
  /\ tid \in 1..Len(Paths)
  /\ l = 0
  /\ S = Paths[tid].scn
  /\ cfg = InitCfg("login") /\ js = InitJs(S)
  /\ marker = FALSE
  /\ bfile = [b \in B |-> NoFile]
  /\ hs = [b \in B |-> "none"]
  /\ nodeFile = [b \in B |-> <<>>]
  /\ processed = <<>>
  /\ jp = [j \in ToSet(S.jobs) |-> "none"]
  /\ procs = [s \in Slots |-> IF s = LOGIN
                THEN [Idle EXCEPT !.kind = "submit-jobs", !.pc = "poll", !.pid = 1,
                                  !.lcfg = InitCfg("login"), !.wcfg = InitCfg("login"), !.ljs = InitJs(S), !.lbidx = 1]
                ELSE Idle]
  /\ npid = 1 /\ nuser = 0 /\ ended = FALSE /\ nfault = 0 /\ ncancel = 0 /\ nresub = 0 /\ stuck = {}
  /\ m = MonInit(S)
  /\ path = <<>> /\ elog = <<>>

Exp == Paths[tid].path[l + 1]
Last == path'[Len(path')]
IsSilent(lbl) == \/ lbl[1] \in {"MarkerTouch", "NextGroup", "MarkerRemove"}
                 \/ (lbl[1] \in {"Poll", "SubmitBatch", "Persist", "CancelPass", "NodeInit"} /\ lbl[3] = 0)
ClassOf(lbl) == CASE lbl[1] \in {"Promote", "Persist", "CheckComplete", "MarkComplete", "Demote"} -> "L"
                  [] lbl[1] \in {"Glob", "CancelPass", "Summary"} -> "P"
                  [] OTHER -> lbl[1]
Matches(lbl, e) == /\ ClassOf(lbl) = e[1] /\ lbl[2] = e[2]
                   /\ (e[1] = "Move" => lbl[3] = e[3])

ProcStep(s) == SubStep(s) \/ NodeStep(s)
\* the recorded run is over (complete, or the driver stopped issuing recovery rounds)
PEnd == /\ Quiescent /\ ~ended /\ ended' = TRUE
        /\ Feed(<<"End", 0, 0>>, <<[e |-> "end", full |-> TRUE]>>)
        /\ UNCHANGED <<S, cfg, js, marker, bfile, hs, nodeFile, processed, jp, procs, npid, nuser, nfault, ncancel, nresub, stuck>>
PNext ==
  /\ l < Len(Paths[tid].path)
  /\ tid' = tid
  /\ \/ \* an operation of a process: its silent steps first, then the visible one that was observed
        /\ Exp[1] \notin {"StartBatch", "JobExit", "UserTry", "End"}
        /\ ProcStep(Exp[2])
        /\ IF IsSilent(Last) THEN l' = l ELSE (Matches(Last, Exp) /\ l' = l + 1)
     \/ /\ Exp[1] = "StartBatch" /\ StartBatch(Exp[2]) /\ l' = l + 1
     \/ /\ Exp[1] = "JobExit" /\ JobExit(Exp[2]) /\ l' = l + 1
     \/ /\ Exp[1] = "UserTry" /\ UserTry /\ l' = l + 1
     \/ /\ Exp[1] = "End" /\ PEnd /\ l' = l + 1
PSpec == PInit /\ [][PNext]_pvars

\* progress register: the furthest position reached per path is reported; the emitted events when the end is reached
Report ==
  /\ PrintT(<<"AT", tid, l>>)
  /\ (l = Len(Paths[tid].path)) => PrintT(<<"FOLLOWED", ToJson([id |-> Paths[tid].id, elog |-> elog])>>)
=============================================================================
