------------------------------- MODULE Launch -------------------------------
(***************************************************************************)
(* C19: jobs are launched exactly as configured and their real exit status *)
(* is recorded (jobs/async_cli_command.py, extensions/generic_command).    *)
(*  (1) Split: POSIX shell word splitting (shlex, posix mode) as a         *)
(*      recursive operator over sequences of symbols: a c (word chars),    *)
(*      s (space), t (tab), q ('), d ("), b (backslash), x ($), h (#: an   *)
(*      ordinary character -- comments are off).  TLC enumerates           *)
(*      every string up to MaxLen (configuration "machine") and checks the *)
(*      algebraic sanity of the automaton.                                 *)
(*  (2) Validation of launches recorded from the real code.                *)
(***************************************************************************)
EXTENDS Naturals, Integers, Sequences, FiniteSets, TLC, Json, IOUtils

CONSTANTS MaxLen, Mode
Alphabet == {"a", "c", "s", "t", "q", "d", "b", "x", "h"}
WS == {"s", "t"}        \* blank, tab

\* st: "ws" between words, "word", "sq" in single quotes, "dq" in double quotes, "esc" after an unquoted backslash,
\* "dqesc" after a backslash inside double quotes
RECURSIVE Tok(_, _, _, _, _)
Tok(s, i, st, cur, toks) ==
  IF i > Len(s) THEN
     IF st \in {"sq", "dq", "esc", "dqesc"} THEN [ok |-> FALSE, toks |-> <<>>]
     ELSE IF st = "word" THEN [ok |-> TRUE, toks |-> Append(toks, cur)]
     ELSE [ok |-> TRUE, toks |-> toks]
  ELSE LET c == s[i] IN
    CASE st = "ws" ->
           IF c \in WS THEN Tok(s, i + 1, "ws", <<>>, toks)
           ELSE IF c = "q" THEN Tok(s, i + 1, "sq", <<>>, toks)
           ELSE IF c = "d" THEN Tok(s, i + 1, "dq", <<>>, toks)
           ELSE IF c = "b" THEN Tok(s, i + 1, "esc", <<>>, toks)
           ELSE Tok(s, i + 1, "word", <<c>>, toks)
      [] st = "word" ->
           IF c \in WS THEN Tok(s, i + 1, "ws", <<>>, Append(toks, cur))
           ELSE IF c = "q" THEN Tok(s, i + 1, "sq", cur, toks)
           ELSE IF c = "d" THEN Tok(s, i + 1, "dq", cur, toks)
           ELSE IF c = "b" THEN Tok(s, i + 1, "esc", cur, toks)
           ELSE Tok(s, i + 1, "word", Append(cur, c), toks)
      [] st = "sq" ->
           IF c = "q" THEN Tok(s, i + 1, "word", cur, toks) ELSE Tok(s, i + 1, "sq", Append(cur, c), toks)
      [] st = "dq" ->
           IF c = "d" THEN Tok(s, i + 1, "word", cur, toks)
           ELSE IF c = "b" THEN Tok(s, i + 1, "dqesc", cur, toks)
           ELSE Tok(s, i + 1, "dq", Append(cur, c), toks)
      [] st = "esc" -> Tok(s, i + 1, "word", Append(cur, c), toks)
      [] OTHER ->       \* inside double quotes a backslash escapes only the quote and the backslash itself
           IF c \in {"d", "b"} THEN Tok(s, i + 1, "dq", Append(cur, c), toks)
           ELSE Tok(s, i + 1, "dq", Append(Append(cur, "b"), c), toks)
Split(s) == Tok(s, 1, "ws", <<>>, <<>>)

VARIABLES cmd, i
vars == <<cmd, i>>
Obs == IF Mode = "obs" THEN JsonDeserialize(IOEnv.TRACE_FILE) ELSE <<>>
ASSUME TLCSet(1, 0)

MInit == cmd = <<>> /\ i = 0
MNext == Len(cmd) < MaxLen /\ \E c \in Alphabet : cmd' = Append(cmd, c) /\ i' = i
\* sanity of the automaton on every enumerated string
RECURSIVE Flat(_)
Flat(t) == IF t = <<>> THEN <<>> ELSE Head(t) \o Flat(Tail(t))
PlainWords == (\A k \in 1..Len(cmd) : cmd[k] \in {"a", "c", "x", "h", "s", "t"}) =>
                 /\ Split(cmd).ok
                 /\ Flat(Split(cmd).toks) = SelectSeq(cmd, LAMBDA ch : ch \notin WS)
                 /\ \A k \in 1..Len(Split(cmd).toks) : Split(cmd).toks[k] # <<>>
NoQuoteCharsLeft == Split(cmd).ok /\ (\A k \in 1..Len(cmd) : cmd[k] # "b") /\ (\A k \in 1..Len(cmd) : cmd[k] # "q") =>
                       \A k \in 1..Len(Split(cmd).toks) : \A n \in 1..Len(Split(cmd).toks[k]) : Split(cmd).toks[k][n] # "d"
QuotedIsOneWord == (Len(cmd) >= 2 /\ cmd[1] = "q" /\ cmd[Len(cmd)] = "q" /\ \A k \in 2..(Len(cmd) - 1) : cmd[k] # "q") =>
                       Split(cmd) = [ok |-> TRUE, toks |-> <<SubSeq(cmd, 2, Len(cmd) - 1)>>]

\* ------------------------------------------------------------------ observations
\* o.cmd: the configured command as symbols; o.base: the leading argv entries as symbol sequences; o.extra: the trailing
\* argv entries (strings); o.name, o.outdir; o.appname/o.appout; o.rc planned exit code; o.row = <<name, rc, hpcid>> read back
Verdict(o) ==
  LET sp == Split(o.cmd)
      inScope == sp.ok /\ Len(sp.toks) >= 1
      wantExtra == (IF o.appname THEN <<"--jade-job-name=" \o o.name>> ELSE <<>>)
                   \o (IF o.appout THEN <<"--jade-runtime-output=" \o o.outdir>> ELSE <<>>)
  IN IF ~inScope THEN {}
     ELSE (IF ~o.raised THEN {} ELSE {"WellFormedCommandLaunches"})
       \cup (IF o.raised \/ o.base = sp.toks THEN {} ELSE {"ArgvIsShellSplit"})
       \cup (IF o.raised \/ o.extra = wantExtra THEN {} ELSE {"JadeArgumentsAppended"})
       \cup (IF o.raised \/ (o.envout = o.outdir /\ o.envname = o.name) THEN {} ELSE {"LaunchEnvironment"})
       \cup (IF o.raised \/ (o.so = o.name \o ".o" /\ o.se = o.name \o ".e") THEN {} ELSE {"OwnStdioFiles"})
       \cup (IF o.raised \/ o.row = <<o.name, o.rc, o.hpcid>> THEN {} ELSE {"ResultCarriesRealExitStatus"})

OInit == cmd = <<>> /\ i \in 1..Len(Obs)
Init == IF Mode = "machine" THEN MInit ELSE OInit
Next == IF Mode = "machine" THEN MNext ELSE UNCHANGED vars
Spec == Init /\ [][Next]_vars
Report == Mode = "obs" =>
            /\ TLCSet(1, TLCGet(1) + 1)
            /\ PrintT(<<"VERDICT", ToJson([id |-> Obs[i].id, viol |-> Verdict(Obs[i])])>>)
AllSeen == Mode = "obs" => TLCGet(1) = Len(Obs)
=============================================================================
