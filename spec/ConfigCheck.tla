---------------------------- MODULE ConfigCheck ----------------------------
(***************************************************************************)
(* C17: configurations round-trip losslessly; invalid ones are rejected up *)
(* front (jobs/job_configuration.py, job_configuration_factory.py,         *)
(* generic_command_parameters.py, job_container_by_name.py,                *)
(* JobSubmitter.run_checks).                                               *)
(* An abstract configuration is a record                                   *)
(*   jobs   : sequence of [name, blk (sequence of names), grp ("" = none), *)
(*            est (0 = unset)]                                             *)
(*   groups : sequence of [name, hpc, maxnodes (0 = unset), poll, wall     *)
(*            (minutes)]                                                   *)
(* Valid(c) is the conjunction of the documented rules; the observations   *)
(* recorded from the real code (build with the public models, dump, load,  *)
(* submit with a counting sbatch stub) are validated against it.           *)
(***************************************************************************)
EXTENDS Naturals, Integers, Sequences, FiniteSets, TLC, Json, IOUtils

ToSet(s) == {s[k] : k \in 1..Len(s)}
Names(c) == {c.jobs[k].name : k \in 1..Len(c.jobs)}
GroupNames(c) == {c.groups[k].name : k \in 1..Len(c.groups)}
Wall(c, g) == (c.groups[CHOOSE k \in 1..Len(c.groups) : c.groups[k].name = g]).wall

BlockersExist(c) == \A k \in 1..Len(c.jobs) : ToSet(c.jobs[k].blk) \subseteq Names(c)
UniqueNames(c) == Cardinality(Names(c)) = Len(c.jobs)
GroupsAssigned(c) == \A k \in 1..Len(c.jobs) : c.jobs[k].grp \in GroupNames(c)
GroupsConsistent(c) ==
  /\ Cardinality(GroupNames(c)) = Len(c.groups)
  /\ \A a, b \in 1..Len(c.groups) : /\ c.groups[a].hpc = c.groups[b].hpc
                                     /\ c.groups[a].maxnodes = c.groups[b].maxnodes
                                     /\ c.groups[a].poll = c.groups[b].poll
RuntimesFit(c) == \A k \in 1..Len(c.jobs) :
                     (c.jobs[k].est > 0 /\ c.jobs[k].grp \in GroupNames(c)) => c.jobs[k].est <= Wall(c, c.jobs[k].grp)
Valid(c) == BlockersExist(c) /\ UniqueNames(c) /\ GroupsAssigned(c) /\ GroupsConsistent(c) /\ RuntimesFit(c)

Verdict(o) ==
  LET v == Valid(o.cfg) IN
  (IF v => (o.accepted /\ o.mem \in {"ok", "skip"}) THEN {} ELSE {"ValidAccepted"})
  \cup (IF ~v => (~o.accepted /\ o.error \in {"InvalidConfiguration", "InvalidParameter"}) THEN {} ELSE {"InvalidRejected"})
  \cup (IF ~v => o.sbatch = 0 THEN {} ELSE {"RejectedBeforeHandOver"})
  \cup (IF (v /\ o.dumped) => o.loaded = o.orig THEN {} ELSE {"RoundTripLossless"})
  \cup (IF v => o.dumped THEN {} ELSE {"ValidDumpsAndLoads"})

Obs == JsonDeserialize(IOEnv.TRACE_FILE)
ASSUME TLCSet(1, 0)
VARIABLE i
Init == i \in 1..Len(Obs)
Next == UNCHANGED i
Spec == Init /\ [][Next]_i
Report == /\ TLCSet(1, TLCGet(1) + 1)
          /\ PrintT(<<"VERDICT", ToJson([id |-> Obs[i].id, viol |-> Verdict(Obs[i])])>>)
AllSeen == TLCGet(1) = Len(Obs)
=============================================================================
