#!/bin/sh
# confirm + evaluate one round-N mutant: round.sh <prop> <suffix> <n> [extra checks...]
p=$1; suf=$2; n=$3; shift 3
cd /verif
python3 tools/confirm_mutant.py ${p}${suf} $n > out/confirm_${p}-${n}.log 2>&1 || { echo "$p-$n NOT CONFIRMED"; tail -5 out/confirm_${p}-${n}.log; exit 1; }
python3 tools/eval_mutant.py --scratch ${p}-${n} $p "$@" 2>&1 | tail -3
