#!/bin/sh
# run every quick check on the current tree and summarise (exit status, violations, wall time)
cd "$(dirname "$0")/.."
for p in C01 C02 C03 C04 C05 C06 C07 C08 C09 C10 C11 C12 C13 C14 C15 C16 C17 C18 C19 C20; do
  out=$(./check $p --tier ${1:-quick} 2>&1); rc=$?
  echo "$p exit=$rc $(echo "$out" | grep -c '^VIOLATION') violations; $(echo "$out" | grep -c 'model-drift') drift; $(echo "$out" | tail -1 | sed 's/.*wall=/wall=/')"
done
