#!/usr/bin/env python3
"""Confirm a seeded change produced by a sub-agent (in its scratch worktree) and file it under /verif/seeded/<id>/.
usage: confirm_mutant.py <prop> <n>      (worktree /tmp/wt_<prop>, deliverables /tmp/mut_<prop>)"""
import json, os, shutil, subprocess, sys, xml.etree.ElementTree as ET

prop, n = sys.argv[1], sys.argv[2]
wt, mut = f"/tmp/wt_{prop}", f"/tmp/mut_{prop}"
prop_id = prop.rstrip("abcdefgh")
sid = f"{prop.rstrip('abcdefgh')}-{n}"
base = json.load(open("/root/.vp/BASELINE.json"))
stable = set(base["stable_pass"])


def sh(cmd, **kw):
    return subprocess.run(cmd, shell=True, stdout=subprocess.PIPE, stderr=subprocess.STDOUT, text=True, **kw)


demo = next(f for f in ("demo.py", "demo_test.py") if os.path.exists(os.path.join(mut, f)))
ran = []
# the patch file must be what is applied in the worktree
sh(f"git -C {wt} checkout -- . && git -C {wt} clean -fdq jade")      # patch.diff is the deliverable; no stash (shared across worktrees)
head = sh("git -C /repo rev-parse HEAD").stdout.strip()
sh(f"git -C {wt} checkout -q --detach {head}")      # the worktree may predate later fix: commits in /repo
r = sh(f"git -C {wt} apply --check {mut}/patch.diff")
assert r.returncode == 0, "patch does not apply to the clean tree: " + r.stdout
r0 = sh(f"cd {mut} && timeout 300 /venv/bin/python {mut}/{demo}")
ran.append(f"demo on unchanged tree: exit {r0.returncode}")
sh(f"git -C {wt} apply {mut}/patch.diff")
r1 = sh(f"cd {mut} && timeout 300 /venv/bin/python {mut}/{demo}")
ran.append(f"demo with change: exit {r1.returncode}")
junit = f"/tmp/junit_{sid}.xml"
t = sh(f"cd {wt} && timeout 1500 /venv/bin/python -m pytest -q -p no:cacheprovider --timeout=900 --continue-on-collection-errors --junitxml={junit} 2>&1 | tail -3")
passed = set()
for tc in ET.parse(junit).getroot().iter("testcase"):
    if not any(c.tag in ("failure", "error", "skipped") for c in tc):
        passed.add(tc.get("classname") + "::" + tc.get("name"))
lost = sorted(stable - passed)
ran.append(f"pinned suite with change: {len(stable & passed)}/{len(stable)} stable tests pass; lost: {lost}")
ok = r0.returncode == 0 and r1.returncode != 0 and not lost
print("\n".join(ran))
print("CONFIRMED" if ok else "NOT CONFIRMED")
if ok:
    d = f"/verif/seeded/{sid}"
    os.makedirs(d, exist_ok=True)
    shutil.copy(f"{mut}/patch.diff", d)
    shutil.copy(f"{mut}/{demo}", d)
    meta = json.load(open(f"{mut}/meta.json"))
    meta["confirmed"] = ran
    meta["id"] = sid
    json.dump(meta, open(f"{d}/meta.json", "w"), indent=1)
os.remove(junit)
sys.exit(0 if ok else 1)
