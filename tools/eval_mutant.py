#!/usr/bin/env python3
"""Apply a seeded change to /repo, run the given checks (quick), undo it straight afterwards, record who caught it.
usage: eval_mutant.py <seeded id> <Cxx> [<Cyy> ...]"""
import json, os, subprocess, sys
args = sys.argv[1:]
scratch = "--scratch" in args          # evaluate in a scratch worktree (VERIF_REPO) instead of /repo itself: used while a
tier = "thorough" if "--thorough" in args else "quick"
args = [a for a in args if a not in ("--scratch", "--thorough")]     # long background run is reading /repo
sid, checks = args[0], args[1:]
d = f"/verif/seeded/{sid}"
repo = "/repo"
envp = ""
if scratch:
    repo = f"/tmp/ev_wt_{sid}"
    subprocess.run(f"git -C /repo worktree add -q --detach {repo} HEAD", shell=True, check=True)
    envp = f"VERIF_REPO={repo} "
assert subprocess.run(f"git -C {repo} status --porcelain", shell=True, capture_output=True, text=True).stdout.strip() == "", "repo not clean"
subprocess.run(f"git -C {repo} apply {d}/patch.diff", shell=True, check=True)
res = {}
try:
    for c in checks:
        p = subprocess.run(f"cd /verif && {envp}./check {c} --tier {tier}", shell=True, capture_output=True, text=True)
        viol = sorted({l.split("(clause ")[1].rstrip(")") for l in p.stdout.split("\n") if l.startswith("VIOLATION") and "(clause " in l})
        res[c if tier == "quick" else c + ":thorough"] = {"exit": p.returncode, "clauses": viol, "drift_notes": sum(1 for l in p.stdout.split("\n") if "model-drift" in l)}
        print(c, res[c if tier == "quick" else c + ":thorough"], flush=True)
        if p.returncode == 2:
            print(p.stderr[-1500:])
finally:
    if scratch:
        subprocess.run(f"git -C /repo worktree remove --force {repo}; git -C /repo worktree prune", shell=True, check=True)
    else:
        subprocess.run("git -C /repo checkout -- . && git -C /repo clean -fdq jade", shell=True, check=True)
meta = json.load(open(f"{d}/meta.json"))
meta.setdefault("evaluated", {}).update(res)
meta["detected_by"] = sorted(c for c, r in meta["evaluated"].items() if r["exit"] == 1)
json.dump(meta, open(f"{d}/meta.json", "w"), indent=1)
# restore evidence of the unchanged tree is the caller's business (re-run the check)
