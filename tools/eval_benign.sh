#!/bin/sh
# apply a bundle of behaviour-preserving diffs (/tmp/mut_<B>/benign*.diff, or the files given in DIFFS) to a scratch worktree
# and run the given quick checks against it: every one of them must stay silent.   eval_benign.sh <bundle> <Cxx> ...
b=$1; shift
wt=/tmp/ev_wt_$b
git -C /repo worktree add -q --detach $wt HEAD || exit 2
for d in ${DIFFS:-/tmp/mut_$b/benign*.diff}; do git -C $wt apply $d || echo "APPLY FAILED $d"; done
cd /verif
for c in "$@"; do
  out=$(VERIF_REPO=$wt ./check $c --tier quick 2>&1); rc=$?
  echo "$b $c exit=$rc $(echo "$out" | grep -c '^VIOLATION') violations $(echo "$out" | grep '^VIOLATION' | sed 's/.*(clause //' | sort | uniq -c | tr '\n' ' ') drift=$(echo "$out" | grep -c model-drift)"
  [ $rc -eq 2 ] && echo "$out" | tail -15
done
git -C /repo worktree remove --force $wt; git -C /repo worktree prune
