"""./check <property> --tier quick|thorough : decide one property.

Verdict rule (DESIGN 2.2): VIOLATION only when TLC rejects a trace recorded from the real code
against the property's clauses of JadeMonitor (and the failing scenario is not a listed known
finding).  Model results (layer I) are reported as evidence; a model/code divergence is a NOTE.
Exit codes: 0 held, 1 violation, 2 machinery failure.
"""
import argparse
import hashlib
import json
import multiprocessing
import os
import random
import re
import sys
import time
import traceback

VERIF = os.path.dirname(os.path.dirname(os.path.abspath(__file__)))
if VERIF not in sys.path:
    sys.path.insert(0, VERIF)

from harness import run, scenario, tracecheck, tlc, genmc, replay_model, families, run_api, funcs, macro  # noqa: E402
from harness.world import HarnessError  # noqa: E402

NCPU = int(os.environ.get("VERIF_JOBS", "16"))
ASSUME = [
    "O_CREAT|O_EXCL is atomic on the shared file system; one buffered write+close of a short row is atomic",
    "squeue lists every batch from the moment sbatch returned its id until the batch ends",
    "scancel kills the batch; a killed process stops between two boundary operations",
    "TLC results hold for the stated constants; real-code exploration is a cover + random sample of schedules",
]


# ------------------------------------------------------------------ clause tables (mirror of ClausesOf in JadeMonitor.tla)
def clauses_of():
    txt = open(os.path.join(VERIF, "spec", "JadeMonitor.tla")).read()
    body = txt[txt.index("ClausesOf(c) =="):]
    body = body[:body.index("Holds(m, c)")]
    out = {}
    for m in re.finditer(r'c = "(C\d+)" -> \{([^}]*)\}', body, re.S):
        out[m.group(1)] = set(re.findall(r'"([A-Za-z0-9_]+)"', m.group(2)))
    return out


# ------------------------------------------------------------------ parallel scenario execution
def _worker_init():
    run.setup_registry()
    from harness.world import warm
    warm()


def _run_task(task):
    kind, args = task
    try:
        fn = DRIVERS[kind]
        return fn(*args)
    except Exception as e:   # machinery failure
        return {"error": f"{type(e).__name__}: {e}", "tb": traceback.format_exc(), "task": [kind, str(args)[:300]]}


def run_tasks(tasks):
    if not tasks:
        return []
    ctx = multiprocessing.get_context("fork")
    with ctx.Pool(min(NCPU, len(tasks)), initializer=_worker_init) as pool:
        res = pool.map(_run_task, tasks, chunksize=1)
    flat = []
    for r in res:
        flat.extend(r if isinstance(r, list) else [r])
    errs = [r for r in flat if "error" in r]
    if errs:
        raise HarnessError("scenario driver failed: " + errs[0]["error"] + "\n" + errs[0]["tb"])
    return flat


def drv_random_hpc(seed, gen_kw):
    rng = random.Random(seed)
    gen_kw = dict(gen_kw)
    eager = gen_kw.pop("eager", 0.0)
    scn = scenario.gen(rng, **gen_kw)
    tr = run.run_hpc(scn, seed, eager=eager if seed % 2 else 0.0)
    tr["driver"] = ["random_hpc", seed, gen_kw]
    return tr


def drv_scn(scn, seed):
    tr = run.run_hpc(scn, seed)
    tr["driver"] = ["scn", scn, seed]
    return tr


def drv_macro(seed, gen_kw, maxb):
    rng = random.Random(seed)
    scn = scenario.gen(rng, **gen_kw)
    return macro.MacroRun(scn, seed, maxb).run()


def drv_model_replay(scn, path, maxb, elog):
    mr = replay_model.ModelReplay(scn, path, maxb)
    tr, div = mr.run()
    if not div:
        # the model says whether its end is a full one (recovery rounds not exhausted by the bound)
        mend = [e for e in elog if e.get("e") == "end"]
        for e in reversed(tr["ev"]):
            if e.get("e") == "end":
                e["full"] = bool(mend[-1].get("full", True)) if mend else True
                break
    diff = None if div else replay_model.compare(elog, tr, mr.sync_index)
    tr["conformance"] = {"diverged": div, "diff": diff}
    return tr


def batching_scn(inp):
    """The scenario realising one abstract batching input (Batching.tla's Init space): jobs J1..JN in listing order in
    group g0; a blocker outside the list (0) is job X in a second group that is processed afterwards."""
    n = len(inp["rem"])
    names = [f"J{k + 1}" for k in range(n)]
    has_ext = any(0 in r for r in inp["rem"])
    jobs = names + (["X"] if has_ext else [])
    blk = {names[k]: sorted(("X" if b == 0 else names[b - 1]) for b in inp["rem"][k]) for k in range(n)}
    if has_ext:
        blk["X"] = []
    g0 = families.G("g0", size=inp["size"], tb=inp["tb"], tryadd=inp["tryadd"], procs=1, wall=inp["cap"] if inp["tb"] else 10)
    groups = [g0] + ([families.G("gx", size=1, procs=1)] if has_ext else [])
    est = {names[k]: (inp["est"][k] if inp["tb"] else 0) for k in range(n)}
    grp = {j: "g0" for j in names}
    if has_ext:
        est["X"] = 0
        grp["X"] = "gx"
    return families.scn(jobs, blk=blk, est=est, groups=groups, grp=grp, maxnodes=inp["maxnodes"])


def drv_batching_input(inp, seed):
    scn = batching_scn(inp)
    tr = run.run_first_round(scn, seed)
    idx = {f"J{k + 1}": k + 1 for k in range(len(inp["rem"]))}
    obs = [[idx[j] for j in b] for b in run.first_round_batches(tr) if b and b[0] in idx]
    tr["batching_obs"] = dict(inp, batches=obs)
    tr["driver"] = ["batching_input", inp, seed]
    return tr


def drv_dry_pair(seed, gen_kw):
    """The same scenario run for real (first round) and as a dry run; the dry trace carries the real first round."""
    rng = random.Random(seed)
    scn = scenario.gen(rng, **gen_kw)
    real = run.run_first_round(scn, seed)
    real["driver"] = ["first_round", scn, seed]
    dry = json.loads(json.dumps(scn))
    for g in dry["groups"]:
        g["dry"] = True
    dry["firstround"] = run.first_round_batches(real)
    drytr = run.run_first_round(dry, seed)
    drytr["driver"] = ["first_round", dry, seed]
    return [real, drytr]


def drv_first_round(scn, seed):
    tr = run.run_first_round(scn, seed)
    tr["driver"] = ["first_round", scn, seed]
    return tr


def drv_results(plan, seed, path, fine=False):
    return run_api.run_results(plan, seed=seed, path=path, fine=fine)


def drv_cluster(plan, seed, path, elog):
    tr = run_api.run_cluster(plan, seed=seed, path=path)
    if path is not None and not tr["conformance"]["diverged"]:
        tr["conformance"]["diff"] = run_api.compare_cops(elog, tr)
    return tr


def drv_fault(scn, seed, plan, fault_mode):
    tr = run.run_fault(scn, seed, plan, fault_mode=fault_mode)
    tr["driver"] = ["fault", scn, seed, plan, fault_mode]
    return tr


def drv_pipeline(seed, local):
    rng = random.Random(seed)
    pscn = run_api.gen_pipeline(rng, local=local)
    return run_api.run_pipeline(pscn, seed)


def drv_resubmit(seed, gen_kw, nres):
    rng = random.Random(seed)
    scn = scenario.gen(rng, **gen_kw)
    scn["reports"] = rng.random() < 0.35
    if rng.random() < 0.4:          # some jobs end up missing in the first epoch
        scn["sbatch_fail"] = {str(rng.randint(1, 3)): 7}
    allflags = [["--failed", "--missing"], ["--no-failed", "--missing"], ["--failed", "--no-missing"], ["--successful"],
                ["--no-failed", "--no-missing", "--successful"], ["--failed", "--missing", "--successful"], [],
                ["--no-failed", "--no-missing"]]
    flag_sets = [allflags[rng.randrange(len(allflags))] for _ in range(nres)]
    # `resubmit-jobs -s`: the groups' parameters are replaced for the rerun (same names)
    regroups = [new_group_params(rng, scn) if rng.random() < 0.4 else None for _ in range(nres)]
    tr = run.run_resubmit(scn, seed, flag_sets, regroups)
    tr["driver"] = ["resubmit", scn, seed, flag_sets, regroups]
    return tr


def new_group_params(rng, scn):
    if any(g.get("dry") for g in scn["groups"]):
        return None
    out = []
    for g in scn["groups"]:
        n = dict(g)
        # (documented rules of the parameters: time-based batching excludes a batch size and needs the number of processes)
        n["size"] = 0 if g["tb"] else rng.randint(1, max(1, len(scn["jobs"])))
        n["tryadd"] = rng.random() < 0.5
        n["procs"] = rng.choice([1, 2, 3] if g["tb"] else [0, 1, 2, 3])
        n["verbose"] = rng.random() < 0.3
        if rng.random() < 0.3:
            n["qos"] = rng.choice(["high", "normal"])
        out.append(n)
    return out


def all_small_dags(n=3):
    """All DAGs over n jobs listed A, B, ... with arbitrary listing order relative to dependency order (acyclic)."""
    import itertools
    names = [chr(65 + i) for i in range(n)]
    pairs = [(a, b) for a in names for b in names if a != b]
    out = []
    for mask in range(1 << len(pairs)):
        blk = {j: [] for j in names}
        for i, (a, b) in enumerate(pairs):
            if mask >> i & 1:
                blk[a].append(b)          # a is blocked by b
        # acyclic?
        seen, ok = {}, True

        def visit(j):
            nonlocal ok
            if seen.get(j) == 1:
                ok = False
                return
            if seen.get(j) == 2:
                return
            seen[j] = 1
            for k in blk[j]:
                visit(k)
            seen[j] = 2
        for j in names:
            visit(j)
        if ok:
            out.append(blk)
    return out


def regroup_tasks(ctx, count):
    """Submissions in which everything fails once, resubmitted with other batch size / try-add-blocked / processes / options."""
    rng = random.Random(ctx.seed + 91)
    tasks = []
    for i in range(count):
        n = rng.randint(3, 6)
        jobs = "ABCDEF"[:n]
        blk = {j: [k for k in jobs[:x] if rng.random() < 0.3] for x, j in enumerate(jobs)}
        order = list(jobs)
        rng.shuffle(order)                       # listing order independent of dependency order
        g0 = families.G(size=rng.randint(1, n), tryadd=rng.random() < 0.5, procs=rng.choice([1, 2, 3]))
        scn = families.scn("".join(order), blk={j: blk[j] for j in order}, rc={j: 1 for j in jobs if rng.random() < 0.7},
                           groups=[g0], maxnodes=rng.choice([0, 1, 2]))
        scn["rc_by_epoch"] = {"1": {j: 0 for j in jobs}}
        g1 = dict(g0, size=rng.choice([x for x in range(1, n + 1) if x != g0["size"]] or [1]), tryadd=rng.random() < 0.5,
                  procs=rng.choice([x for x in (1, 2, 3) if x != g0["procs"]]), verbose=rng.random() < 0.5,
                  qos=rng.choice(["", "high"]))
        tasks.append(("resubmit_scn", (scn, ctx.seed * 7 + i, [["--failed", "--missing"] + (["--successful"] if i % 3 == 0 else [])], [[g1]])))
    return tasks


def drv_resubmit_scn(scn, seed, flag_sets, regroups=None):
    tr = run.run_resubmit(scn, seed, flag_sets, regroups)
    tr["driver"] = ["resubmit", scn, seed, flag_sets, regroups]
    return tr


def small_resubmit_tasks(ctx, count):
    """The 3-job space: all DAGs x exit codes x cancel flags x batch sizes x resubmit flags; sampled (quick) or swept."""
    rng = random.Random(ctx.seed + 77)
    dags = all_small_dags(3)
    flagsets = [["--failed", "--missing"], ["--failed", "--no-missing"], ["--successful"], ["--failed", "--missing", "--successful"]]
    space = []
    for blk in dags:
        for rcmask in range(8):
            for fmask in (0, 7, 2, 5):
                for size in (1, 3):
                    for fs in flagsets:
                        space.append((blk, rcmask, fmask, size, fs))
    ctx.extra["small_resubmit_space"] = len(space)
    pick = space if count is None or count >= len(space) else rng.sample(space, count)
    tasks = []
    for i, (blk, rcmask, fmask, size, fs) in enumerate(pick):
        scn = families.scn("ABC", blk=blk, flag="".join(j for k, j in enumerate("ABC") if fmask >> k & 1),
                           rc={j: 1 for k, j in enumerate("ABC") if rcmask >> k & 1},
                           groups=[families.G(size=size, tryadd=(i % 2 == 0), procs=2)], maxnodes=0 if i % 3 else 1)
        if i % 3 == 2:
            # other exit codes in the rerun: what failed passes, what passed fails
            scn["rc_by_epoch"] = {"1": {j: (0 if scn["rc"].get(j, 0) else 1) for j in "ABC"}}
        rg = None
        if i % 4 == 1:
            rg = [[dict(scn["groups"][0], size=(3 if size == 1 else 1 + i % 2), tryadd=(i % 8 == 1), procs=1 + i % 3)]]
        fss = [fs]
        if i % 5 == 0:
            # repeated resubmissions: the same submission resubmitted again with other flags (the first may select nothing --
            # e.g. --failed --missing when everything succeeded --, the second must still find a submission it can act on)
            fss = [fs, flagsets[(flagsets.index(fs) + 2) % 4]]
        tasks.append(("resubmit_scn", (scn, ctx.seed + i, fss, rg)))
    # a resubmission that selects nothing, then one that selects everything
    for k, size in enumerate((1, 3)):
        scn = families.scn("ABC", blk={"C": ["A"]}, groups=[families.G(size=size, tryadd=bool(k), procs=2)], maxnodes=0)
        tasks.append(("resubmit_scn", (scn, ctx.seed + 900 + k, [["--failed", "--missing"], ["--successful"]], None)))
    return tasks


def drv_resubmit_incomplete(seed, gen_kw, variant):
    rng = random.Random(seed)
    scn = scenario.gen(rng, **gen_kw)
    tr = run.run_resubmit_incomplete(scn, seed, variant)
    tr["driver"] = ["resubmit_incomplete", scn, seed, variant]
    return tr


def drv_hooks(seed, combo, local, fail_teardown):
    rng = random.Random(seed)
    scn = scenario.gen(rng, n_min=2, n_max=5, groups_max=(1 if local or seed % 3 else 3), allow_time=False)
    scn["hooks"] = {k: bool(combo >> i & 1) for i, k in enumerate(("setup", "teardown", "nsetup", "nteardown"))}
    # fail_teardown: False / True (the teardown command exits 1) / "node" (the node teardown command exits 1)
    scn["hook_rc"] = {"nteardown": 1} if fail_teardown == "node" else ({"teardown": 1} if fail_teardown else {})
    if local:
        scn["mode"] = "local"
    tr = run.run_hpc(scn, seed)
    tr["driver"] = ["scn", scn, seed]
    return tr


def drv_cancel(scn, seed, t, after):
    plan = [{"kind": "usertry", "t": t, "argv": ["cancel-jobs", "{out}"], "host": "login"}]
    tr = run.run_fault(scn, seed, plan, after=after)
    tr["driver"] = ["cancel", scn, seed, t, after]
    return tr


def drv_cancel_quiet(scn, seed, k, after, complete_ids=False):
    tr = run.run_cancel_quiet(scn, seed, k, after, complete_ids=complete_ids)
    tr["driver"] = ["cancel_quiet", scn, seed, k, after, complete_ids]
    return tr


def drv_random_cancel(seed, gen_kw):
    rng = random.Random(seed)
    scn = scenario.gen(rng, **gen_kw)
    scn["maxnodes"] = rng.choice([1, 1, 2, 2, 3])
    base = run.run_fault(scn, seed, None)
    t = rng.randrange(1, max(2, len(base["moves"])))
    cmds = [["try-submit-jobs", "{out}"], ["show-status", "-o", "{out}", "-n"]]
    after = [cmds[rng.randrange(2)] for _ in range(rng.randint(0, 3))]
    return drv_cancel(scn, seed, t, after)


def drv_random_nodefaults(seed, gen_kw):
    """Random scenario with failed sbatch calls for a random subset of batches and a node killed at a random point."""
    rng = random.Random(seed)
    scn = scenario.gen(rng, **gen_kw)
    scn["nodefaults"] = True
    nb = rng.randint(0, 2)
    scn["sbatch_fail"] = {str(b): 7 for b in rng.sample(range(1, 6), nb)}
    eager = 0.05 if seed % 2 else 0.0        # in half of the runs the user also runs try-submit-jobs while batches are active
    base = run.run_fault(scn, seed, None, eager=eager)
    runners = [(pid, o) for pid, o in base["ops"].items() if o["label"] == "run-jobs"]
    plan = None
    if runners and rng.random() < 0.7:
        pid, o = runners[rng.randrange(len(runners))]
        plan = {"kind": "nodekill", "pid": pid, "k": rng.randrange(len(o["ops"]))}
    tr = run.run_fault(scn, seed, plan, eager=eager)
    tr["driver"] = ["fault", scn, seed, plan, False, eager]
    return tr


DRIVERS = {"local": None, "cancel_quiet": drv_cancel_quiet, "macro": drv_macro, "pipeline": drv_pipeline, "resubmit_scn": drv_resubmit_scn, "resubmit": drv_resubmit, "resubmit_incomplete": drv_resubmit_incomplete, "hooks": drv_hooks, "cancel": drv_cancel, "random_cancel": drv_random_cancel, "fault": drv_fault, "random_nodefaults": drv_random_nodefaults, "cluster": drv_cluster, "results": drv_results, "random_hpc": drv_random_hpc, "scn": drv_scn, "model_replay": drv_model_replay,
           "batching_input": drv_batching_input, "dry_pair": drv_dry_pair, "first_round": drv_first_round}


# ------------------------------------------------------------------ known findings
def load_known():
    p = os.path.join(VERIF, "known_findings.json")
    if not os.path.exists(p):
        return []
    return [x for x in json.load(open(p))["findings"] if x.get("state") == "known"]


def _matcher_k2(tr, raw_index):
    """K2: the job started (or handed over) at the violating event lacks an outcome only for blockers that were missing
    and that the latest resubmit-jobs (run with --no-missing) did not select for rerun -- not for blockers that are
    themselves being rerun.  The rerun set is computed as the monitor computes it (selection by the flags from the last
    results summary, closed under dependents)."""
    if raw_index is None:
        return False
    e = tr["ev"][raw_index]
    res = None
    for i in range(raw_index - 1, -1, -1):
        x = tr["ev"][i]
        if x.get("e") == "proc" and x.get("k") == "resubmit-jobs":
            res = i
            break
    if res is None:
        return False
    fl = tr["ev"][res].get("flags", [])
    if "--no-missing" not in fl:
        return False
    summ = None
    for x in reversed(tr["ev"][:res]):
        if x.get("e") == "summary":
            summ = x
            break
    if summ is None:
        return False
    sel = set()
    for r in summ["res"]:
        cls = "canceled" if r[2] == "canceled" else ("successful" if int(r[1]) == 0 else "failed")
        if (cls in ("failed", "canceled") and "--no-failed" not in fl) or (cls == "successful" and "--successful" in fl):
            sel.add(r[0])
    blk = tr["scn"]["blk"]
    while True:
        more = {j for j in tr["scn"]["jobs"] if set(blk.get(j, [])) & sel} - sel
        if not more:
            break
        sel |= more
    missing = set(summ["missing"])
    if e.get("e") in ("sbatch", "cfgbatch"):
        # the same defect seen one step earlier: the batch is handed over without the never-run blocker in its wait list
        lacking = [k for i, j in enumerate(e["jobs"]) for k in blk.get(j, [])
                   if k not in e["rows"] and k not in (e["hb"][i] if i < len(e["hb"]) else [])]
    elif e.get("e") == "launch":
        lacking = [k for k in blk[e["job"]] if k not in e["rows"]]
    else:
        return False
    return bool(lacking) and all(k in missing and k not in sel for k in lacking)


MATCHERS = {"k2": _matcher_k2}


def match_known(known, prop, clause, tr, raw_index=None):
    for k in known:
        if k["property"] != prop or clause not in k["clauses"]:
            continue
        if k.get("matcher") and not MATCHERS[k["matcher"]](tr, raw_index):
            continue
        ok = True
        for cond in k.get("trace_has", []):
            found = False
            for e in tr["ev"]:
                if all((re.search(v[3:], str(e.get(f, ""))) if isinstance(v, str) and v.startswith("re:") else e.get(f) == v)
                       for f, v in cond.items()):
                    found = True
                    break
            if not found:
                ok = False
                break
        if ok:
            return k
    return None


# ------------------------------------------------------------------ judging
class Ctx:
    def __init__(self, prop, tier, seed):
        self.prop, self.tier, self.seed = prop, tier, seed
        self.t0 = time.time()
        self.models = []          # TLC model runs: dict(name, states, transitions, wall, ok)
        self.traces = 0
        self.viol = []            # (clause, replay path)
        self.known_hits = []
        self.notes = []
        self.cnt = {}
        self.samples = []
        self.extra = {}
        self.distinct = set()
        self.clauses = clauses_of()
        self.known = load_known()
        self.tlc_states = 0

    def model(self, name, module, cfg, workers=NCPU, env=None, timeout=3000, expect_ok=True, extra=()):
        res = tlc.run_tlc(module, cfg=cfg, workers=workers, env=env, timeout=timeout, extra=extra)
        ok = tlc.tlc_ok(res)
        self.models.append({"name": name, "module": module, "cfg": cfg, "states": res["distinct"],
                            "transitions": res["states"], "wall_s": round(res["wall"], 1), "ok": ok})
        if expect_ok and not ok:
            # a committed model that no longer passes is a machinery problem, not a verdict about the code
            raise tlc.TlcError(f"model {name} did not pass:\n" + res["out"][-3000:])
        return res

    def impl_model(self, name, scns, maxb=3, maxuser=3, fixed=None, simulate=None, max_replay=400, invariants=None,
                   timeout=1500, faults=(), maxfaults=0, usercancel=False, eager=False, resub=(), maxresub=1):
        """Explore JadeImpl on the given scenarios (exhaustively, or by simulation), then replay the behaviours TLC
        produced into the real code: events predicted by the model vs. events observed (conformance), and the real
        traces are judged by the monitor like any other."""
        gen = os.path.join(VERIF, "out", "gen")
        os.makedirs(gen, exist_ok=True)
        mod = "MC_" + re.sub(r"[^A-Za-z0-9]", "_", name) + f"_{os.getpid()}"
        recs = [scenario.tla_scn(s, f"s{i}") for i, s in enumerate(scns)]
        with open(os.path.join(gen, mod + ".tla"), "w") as f:
            f.write(genmc.mc_module(mod, "JadeImpl", recs, "MCResubFlags == {" + ", ".join(
                genmc.tla({"failed": "--no-failed" not in fs, "missing": "--no-missing" not in fs, "successful": "--successful" in fs})
                for fs in resub) + "}"))
        invs = invariants or ["MonitorClean", "N_OneSubmitterRole", "N_NodesBound", "N_CountersMatch", "N_DoneHasRow",
                              "N_RowsUnique"]
        cfg = ["SPECIFICATION Spec", "CONSTANTS", "  Scns <- ScnSet", f"  MaxB = {maxb}", f"  MaxUser = {maxuser}",
               "  Monitor = TRUE", "  Log = TRUE", "  Fixed = {%s}" % ", ".join(json.dumps(x) for x in sorted(fixed or FIXED)),
               "  FaultKinds = {%s}" % ", ".join(json.dumps(x) for x in faults), f"  MaxFaults = {maxfaults}",
               "  UserCancels = " + ("TRUE" if usercancel else "FALSE"), "  EagerUser = " + ("TRUE" if eager else "FALSE"), "  ResubFlags <- MCResubFlags", f"  MaxResub = {maxresub}",
               "VIEW View"] + [f"INVARIANT {i}" for i in invs] + ["INVARIANT DumpBehaviour", "CHECK_DEADLOCK FALSE"]
        cfgp = os.path.join(gen, mod + ".cfg")
        with open(cfgp, "w") as f:
            f.write("\n".join(cfg) + "\n")
        res = tlc.run_tlc(mod, cfg=cfgp, workers=(1 if simulate else NCPU), cwd=gen, timeout=timeout, simulate=simulate)
        ok = tlc.tlc_ok(res) or (simulate and "Error" not in res["out"] and res["rc"] in (0, -1))
        for ext in (".tla", ".cfg"):
            try:
                os.remove(os.path.join(gen, mod + ext))
            except OSError:
                pass
        self.models.append({"name": name, "module": "JadeImpl", "scenarios": len(scns), "states": res["distinct"],
                            "transitions": res["states"], "wall_s": round(res["wall"], 1), "ok": bool(ok),
                            "mode": "simulate" if simulate else "exhaustive", "constants": {"MaxB": maxb, "MaxUser": maxuser}})
        if not ok:
            err = tlc.TlcError(f"model {name} did not pass:\n" + tlc_digest(res["out"]) + "\n" + res["out"][-1500:])
            err.out = res["out"]
            raise err
        behs = replay_model.parse_behaviours(res["out"])
        # distinct behaviours, deterministic sample
        seen, uniq = set(), []
        for b in behs:
            k = json.dumps([b["scn"], b["path"]])
            if k not in seen:
                seen.add(k)
                uniq.append(b)
        uniq.sort(key=lambda b: json.dumps([b["scn"], b["path"]]))
        rng = random.Random(self.seed)
        if len(uniq) > max_replay:
            uniq = rng.sample(uniq, max_replay)
        tasks = [("model_replay", (scns[int(b["scn"][1:])], b["path"], maxb, b["elog"])) for b in uniq]
        traces = run_tasks(tasks)
        conf = self.extra.setdefault("conformance", {"behaviours_from_tlc": 0, "replayed": 0, "diverged": 0, "event_diffs": 0})
        conf["behaviours_from_tlc"] += len(behs)
        for tr in traces:
            conf["replayed"] += 1
            c = tr["conformance"]
            if c["diverged"]:
                conf["diverged"] += 1
                self.notes.append("model-drift: schedule could not be followed: " + json.dumps(c["diverged"])[:300])
            elif c["diff"]:
                conf["event_diffs"] += 1
                self.notes.append("model-drift: predicted and observed events differ: " + json.dumps(c["diff"])[:300])
        nrg = sum(1 for tr in traces if any(e.get("e") == "regroup" for e in tr["ev"]))
        if nrg:
            self.extra["replayed_behaviours_with_regroup"] = self.extra.get("replayed_behaviours_with_regroup", 0) + nrg
        if uniq and len(self.samples) < 3:
            self.samples.append({"kind": "JadeImpl behaviour replayed into the real code", "scenario": compact_scn(scns[int(uniq[0]["scn"][1:])]),
                                 "path": uniq[0]["path"][:60]})
        self.judge(traces, "replays of JadeImpl behaviours")
        return res

    def backward_conformance(self, n, gen_kw=None, maxb=6, salt=0):
        """Code -> model: random runs of the real code (random scenarios, random schedules at the granularity of the
        model's visible operations) must be behaviours of JadeImpl: TLC (JadeImplPath) drives the model along each
        recorded sequence of operations, and the events the model emits must equal the events observed."""
        from concurrent.futures import ThreadPoolExecutor
        kw = dict(n_min=2, n_max=5, groups_max=2)
        kw.update(gen_kw or {})
        traces = run_tasks([("macro", (s, kw, maxb)) for s in seeds(self, n, 900 + salt)])
        good = [t for t in traces if not t["bad"]]
        conf = self.extra.setdefault("backward_conformance", {"runs": 0, "out_of_model_bounds": 0, "followed": 0, "stuck": 0,
                                                               "event_diffs": 0})
        conf["runs"] += len(traces)
        conf["out_of_model_bounds"] += len(traces) - len(good)
        shards = max(1, min(NCPU, len(good) // 12))
        files = []
        for k in range(shards):
            part = [{"id": i, "scn": scenario.tla_scn(t["scn"], str(i)), "path": t["labels"]} for i, t in enumerate(good) if i % shards == k]
            path = os.path.join(VERIF, "out", f"paths_{os.getpid()}_{k}.json")
            with open(path, "w") as f:
                json.dump(part, f)
            files.append((path, part))
        with ThreadPoolExecutor(max_workers=shards) as ex:
            results = list(ex.map(lambda fp: tlc.run_tlc("JadeImplPath", cfg="JadeImplPath.cfg", workers=1,
                                                          env={"TRACE_FILE": fp[0]}, timeout=3000), files))
        states = 0
        for (path, part), res in zip(files, results):
            os.remove(path)
            out = res["out"]
            if res["rc"] != 0 or "Model checking completed" not in out:
                # the specification could not even evaluate a step of some recorded run (an operation with arguments
                # outside the model's domains): on a changed tree that is drift, never a verdict and never a failure
                errs = [x for x in out.split("\n") if x.startswith("Error:")][:2]
                if not re.search(r'<<"AT", \d+, [1-9]\d*>>', out):
                    # not a single step of any run could be taken: the specification itself is broken
                    raise tlc.TlcError("JadeImplPath failed before taking a step:\n" + out[-2000:])
                conf["stuck"] += len(part)
                conf["tlc_errors"] = conf.get("tlc_errors", 0) + 1
                self.notes.append("model-drift (code->model): JadeImplPath could not evaluate a recorded run: " + " ".join(errs)[:300])
                continue
            states += res["distinct"]
            at = {}
            for mm in re.finditer(r'<<"AT", (\d+), (\d+)>>', out):
                at[int(mm.group(1))] = max(at.get(int(mm.group(1)), 0), int(mm.group(2)))
            fol = {}
            for line in out.split("\n"):
                mm = re.match(r'^<<"FOLLOWED", "(.*)">>\s*$', line.strip())
                if mm:
                    d = json.loads(json.loads('"' + mm.group(1) + '"'))
                    fol[int(d["id"])] = d["elog"]
            for k, pth in enumerate(part):
                tr = good[pth["id"]]
                if pth["id"] in fol:
                    conf["followed"] += 1
                    diff = replay_model.compare(fol[pth["id"]], tr, tr["sync"])
                    if diff:
                        conf["event_diffs"] += 1
                        self.notes.append("model-drift (code->model): events differ: " + json.dumps(diff)[:300])
                else:
                    conf["stuck"] += 1
                    pos = at.get(k + 1, 0)
                    self.notes.append("model-drift (code->model): JadeImpl cannot follow the recorded run beyond step "
                                      f"{pos}: {json.dumps(pth['path'][max(0, pos - 1):pos + 2])}")
        self.models.append({"name": "JadeImplPath (recorded runs of the real code followed by JadeImpl)", "module": "JadeImplPath",
                            "states": states, "transitions": states, "ok": True, "mode": "trace following"})
        self.judge(good, "random runs at visible-operation granularity (also validated against the monitor)")

    def impl_liveness(self, name, scns, maxb=3, maxuser=4, fixed=None, usercancel=False, resub=(), maxresub=1):
        """C05's eventual completion on JadeImpl: FairSpec (weak fairness on every process step, batch start, job exit and
        on the user's recovery) => <>complete; no state constraint, monitor frozen. Also shows that the recovery is needed
        (MaxUser = 0 must violate the property: the refused-last-node race is in the model)."""
        gen = os.path.join(VERIF, "out", "gen")
        os.makedirs(gen, exist_ok=True)
        recs = [scenario.tla_scn(s, f"s{i}") for i, s in enumerate(scns)]
        out = {}
        for tag, mu in (("with recovery", maxuser), ("without recovery", 0)) + ((("unfair cancel", maxuser),) if usercancel else ()):
            mod = "MC_live_" + re.sub(r"[^A-Za-z0-9]", "_", tag) + f"_{os.getpid()}"
            with open(os.path.join(gen, mod + ".tla"), "w") as f:
                f.write(genmc.mc_module(mod, "JadeImpl", recs, "MCResubFlags == {" + ", ".join(
                    genmc.tla({"failed": "--no-failed" not in fs, "missing": "--no-missing" not in fs, "successful": "--successful" in fs})
                    for fs in resub) + "}"))
            cfgp = os.path.join(gen, mod + ".cfg")
            with open(cfgp, "w") as f:
                f.write("\n".join(["SPECIFICATION " + ("FairSpecCancel" if usercancel and tag != "unfair cancel" else "FairSpec"), "CONSTANTS", "  Scns <- ScnSet",
                                   f"  MaxB = {maxb}", f"  MaxUser = {mu}",
                                   "  Monitor = FALSE", "  Log = FALSE", "  FaultKinds = {}", "  MaxFaults = 0",
                                   "  UserCancels = " + ("TRUE" if usercancel else "FALSE"), "  EagerUser = FALSE", "  ResubFlags <- MCResubFlags", f"  MaxResub = {maxresub}",
                                   "  Fixed = {%s}" % ", ".join(json.dumps(x) for x in sorted(fixed or FIXED)),
                                   "PROPERTY EventuallyComplete"] + (["PROPERTY CancelEnds", "PROPERTY CancelMarks"] if usercancel else []) + (["PROPERTY ResubmitEnds"] if resub else [])
                                  + ["CHECK_DEADLOCK FALSE"]) + "\n")
            res = tlc.run_tlc(mod, cfg=cfgp, workers=NCPU, cwd=gen, timeout=1500)
            for ext in (".tla", ".cfg"):
                os.remove(os.path.join(gen, mod + ext))
            out[tag] = res
        ok = tlc.tlc_ok(out["with recovery"])
        def violated(o, prop):
            return re.search(r"Temporal propert(y|ies) [^\n]*\b" + prop + r"\b[^\n]* (was|were) violated", o) is not None
        needs = violated(out["without recovery"]["out"], "EventuallyComplete")
        self.models.append({"name": name, "module": "JadeImpl", "mode": "liveness (FairSpec => <>complete), no state constraint",
                            "scenarios": len(scns), "states": out["with recovery"]["distinct"],
                            "transitions": out["with recovery"]["states"], "wall_s": round(out["with recovery"]["wall"], 1),
                            "ok": bool(ok), "violated_without_user_recovery": bool(needs)})
        if not ok:
            raise tlc.TlcError(f"liveness model {name} did not pass:\n" + out["with recovery"]["out"][-3000:])
        if not needs:
            self.notes.append("liveness is not sensitive to the user's recovery on these scenarios (vacuity warning)")
        if usercancel:
            # vacuity: without fairness on the cancel-jobs process the cancellation may never end -- TLC must say so
            sens = violated(out["unfair cancel"]["out"], "CancelEnds")
            self.models[-1]["cancel_liveness_violated_without_fairness"] = bool(sens)
            self.models[-1]["mode"] = "liveness (FairSpecCancel => <>complete, cancel ~> complete and quiet, role taken ~> canceled)"
            if not sens:
                self.notes.append("CancelEnds is not sensitive to the cancel process's fairness (vacuity warning)")

    def judge(self, traces, what="", ignore_other=False, module="MonTrace", encoder=None, clauses=None):
        """Validate recorded traces against the monitor; collect violations of this property's clauses."""
        if not traces:
            return
        verdicts, st = tracecheck.check_traces(traces, shards=NCPU, module=module, encoder=encoder)
        self.tlc_states += st["tlc_states"]
        mine = clauses if clauses is not None else self.clauses.get(self.prop, set())
        if clauses is not None:
            self.clauses[self.prop] = set(clauses)
        encoder_ = encoder or tracecheck.encode_trace
        for tr, v in zip(traces, verdicts):
            self.traces += 1
            key = hashlib.sha1(json.dumps([tr["scn"], tr.get("moves")], sort_keys=True).encode()).hexdigest()
            self.distinct.add(key)
            for c, n in v["cnt"].items():
                if c in mine:
                    self.cnt[c] = self.cnt.get(c, 0) + n
            bad = [c for c in v["viol"] if c in mine]
            other = [c for c in v["viol"] if c not in mine]
            if other and not ignore_other:
                self.notes.append(f"other-property clauses violated in a trace of {what}: {other}")
            idx = encoder_(tr, "x")[1] if bad else []
            for c in bad:
                pos = v["vpos"].get(c)
                raw = idx[pos - 1] if pos and 0 < pos <= len(idx) else None
                k = match_known(self.known, self.prop, c, tr, raw)
                if k:
                    self.known_hits.append((k["id"], c))
                    continue
                # at most a handful of replay files per clause and run (a broken tree can violate a clause in thousands of traces)
                nsaved = sum(1 for cc, _ in self.viol if cc == c)
                if nsaved >= 6:
                    continue
                path = save_replay(self.prop, c, tr, v)
                self.viol.append((c, path))
        if len(self.samples) < 3 and traces:
            tr = traces[0]
            self.samples.append({"kind": "real trace " + what, "scenario": compact_scn(tr["scn"]),
                                 "events": [summ_event(e) for e in tr["ev"] if e["e"] in SAMPLE_EVENTS][:40]})

    def finish(self, level="model_checking", rule="", exhaustive=False, assumptions=None):
        os.makedirs(os.path.join(VERIF, "evidence"), exist_ok=True)
        states = sum(m["states"] for m in self.models) or self.tlc_states
        transitions = sum(m["transitions"] for m in self.models) or self.tlc_states
        ev = {
            "property_id": self.prop, "tier": self.tier, "seed": self.seed, "level": level,
            "coverage": {
                "states": max(1, states), "transitions": max(1, transitions),
                "traces_validated_against_impl": self.traces,
                "evaluations": max(1, self.traces), "distinct_nontrivial": max(2, len(self.distinct)) if self.traces else 2,
                "rule": rule, "samples": self.samples or [{"note": "no trace sampled"}],
                "exhaustive": exhaustive,
                "models": self.models, "monitor_states": self.tlc_states,
                "clause_antecedent_counts": {c: self.cnt.get(c, 0) for c in sorted(self.clauses.get(self.prop, []))},
                "known_findings_hit": sorted({k for k, _ in self.known_hits}),
                "notes": sorted(set(self.notes))[:20],
                **self.extra,
            },
            "assumptions": (assumptions or []) + ASSUME,
            "wall_s": round(time.time() - self.t0, 1),
            "violations": len(self.viol),
        }
        with open(os.path.join(VERIF, "evidence", f"{self.prop}.json"), "w") as f:
            json.dump(ev, f, indent=1)
        for kid in sorted({k for k, _ in self.known_hits}):
            k = next(x for x in self.known if x["id"] == kid)
            print(f"KNOWN-FINDING: property={self.prop} {k['what']}")
        for n in sorted(set(self.notes))[:10]:
            print("NOTE", n)
        seen = set()
        for c, path in self.viol:
            if c in seen:
                continue
            seen.add(c)
            print(f"VIOLATION property={self.prop} replay={path}   (clause {c})")
        print(f"{self.prop} {self.tier}: models={[(m['name'], m['states']) for m in self.models]} real_traces={self.traces} "
              f"violations={len(self.viol)} wall={ev['wall_s']}s")
        return 1 if self.viol else 0


SAMPLE_EVENTS = {"cfgbatch", "sbatch", "launch", "jobexit", "summary", "hpc", "kill", "fault", "exit", "promote", "hook",
                 "scancel", "pipeline"}


def summ_event(e):
    keep = {k: v for k, v in e.items() if k in ("e", "pid", "k", "b", "jobs", "job", "rc", "ok", "what", "code", "exc",
                                                "missing", "tally", "host", "which", "at", "before", "after", "active", "live")}
    return keep


def compact_scn(scn):
    return {k: scn[k] for k in ("jobs", "blk", "flag", "rc", "est", "grp", "groups", "maxnodes", "mode", "cpus") if k in scn}


def save_replay(prop, clause, tr, verdict):
    d = os.path.join(VERIF, "out", "replays")
    os.makedirs(d, exist_ok=True)
    h = hashlib.sha1(json.dumps([tr["scn"], tr.get("moves")], sort_keys=True).encode()).hexdigest()[:10]
    path = os.path.join(d, f"{prop}_{clause}_{h}.json")
    with open(path, "w") as f:
        json.dump({"property": prop, "clause": clause, "pos": verdict["vpos"].get(clause), "driver": tr.get("driver"),
                   "scn": tr["scn"], "seed": tr.get("seed"), "moves": tr.get("moves"), "ev": tr["ev"]}, f)
    return path


# ------------------------------------------------------------------ the checks
def seeds(ctx, n, salt=0):
    base = (ctx.seed * 1000003 + salt * 7919) % (2 ** 31)
    return [base + i for i in range(n)]


RULE_PROTOCOL = ("(a) JadeImpl explored by TLC on small scenarios, every interleaving of login/compute-node submitter rounds, "
                 "batch starts, job exits and recovery rounds; its behaviours replayed into the real code (conformance); TLC "
                 "simulation of JadeImpl on random 4-5-job scenarios, replayed likewise; "
                 "(b) seeded random DAGs (listing order independent of dependency order), random submitter parameters (batch "
                 "size / time-based batching with estimates / max nodes / try-add-blocked / groups), random interleavings, "
                 "documented recovery rounds; (c) code -> model: recorded runs followed by JadeImpl; (d) single-delay sweep of base "
                 "schedules and login-node rounds started at every other step of base schedules and held at each of their "
                 "operations -- also with every file operation as a scheduling point; distinct = distinct (scenario, "
                 "schedule) pairs")


def delay_sweep_tasks(ctx, bases, cap=None):
    """Systematic single-delay exploration of fault-free schedules: for every base schedule, every process and every one
    of its operations j, hold that process at j while the others take d steps (d in 4, 9, 16)."""
    base_tasks = [("fault", (b, ctx.seed * 31 + i, None, False)) for i, b in enumerate(bases)]
    baselines = run_tasks(base_tasks)
    tasks = []
    for (kind_, (scn, seed, _, fm)), btr in zip(base_tasks, baselines):
        bn = {e["pid"]: e["b"] for e in btr["ev"] if e["e"] == "proc"}
        for pid, o in sorted(btr["ops"].items(), key=lambda x: int(x[0])):
            if o["label"] not in ("try-submit-jobs", "run-jobs", "submit-jobs"):
                continue
            for j in range(len(o["ops"])):
                for d in (4, 9, 16):
                    tasks.append(("fault", (scn, seed, {"kind": "delay", "label": o["label"], "b": bn.get(int(pid), -1), "j": j, "d": d}, False)))
    ctx.extra["delay_points_enumerated"] = ctx.extra.get("delay_points_enumerated", 0) + len(tasks)
    if cap and len(tasks) > cap:
        tasks = random.Random(ctx.seed + 3).sample(tasks, cap)
    return baselines, tasks


def user_round_sweep_tasks(ctx, cap=None):
    """The user runs try-submit-jobs while batches are active (started at every t-th scheduling step of a base schedule)
    and that round is held at each of its operations while the nodes go on: every placement of a concurrent login-node
    round against the end of the batches (e.g. the last batch ending between the round's two observations of the world)."""
    bases = [families.scn("AB", groups=[families.G(size=1, procs=1)], maxnodes=0),
             families.scn("ABC", blk={"C": ["A"]}, groups=[families.G(size=2, tryadd=False, procs=2)], maxnodes=0),
             families.scn("ABC", groups=[families.G(size=2, procs=1)], maxnodes=0)]
    base_tasks = [("fault", (b, ctx.seed * 37 + i, None, False)) for i, b in enumerate(bases)]
    baselines = run_tasks(base_tasks)
    tasks, held = [], []
    for (kind_, (scn, seed, _, fm)), btr in zip(base_tasks, baselines):
        nsteps = len(btr["moves"])
        for t in range(1, nsteps, 2):
            for j in range(0, 16):
                # from another login host, and from the host submit-jobs ran on (the hostname is what the role records)
                plan = [{"kind": "usertry", "t": t, "host": "user" if (t // 2 + j) % 2 else "login"},
                        {"kind": "delay", "label": "try-submit-jobs", "b": -1, "j": j, "d": 25}]
                tasks.append(("fault", (scn, seed, plan, False)))
        # ... and the other way round: submit-jobs itself is held at each of its first operations while a round started on
        # the same login host runs to its end
        for t in range(1, 8):
            for j in range(0, 10):
                plan = [{"kind": "usertry", "t": t, "host": "login"},
                        {"kind": "delay", "label": "submit-jobs", "b": -1, "j": j, "d": 45}]
                held.append(("fault", (scn, seed, plan, False)))
    ctx.extra["user_round_points_enumerated"] = len(tasks) + len(held)
    if cap and len(tasks) > cap:
        tasks = random.Random(ctx.seed + 4).sample(tasks, cap)
    return baselines, tasks + held


def fine_user_round_sweep_tasks(ctx, cap=None):
    """The same at the grain of single file operations (every open-for-write / rename / remove of a state or result file is a
    scheduling point): a login-node round started while batches with several jobs are running, held at each of its
    operations -- e.g. between reading a node's result file and deleting it -- while the nodes go on appending."""
    bases = [families.scn("ABCD", groups=[families.G(size=2, procs=1)], maxnodes=0),
             families.scn("ABC", blk={"C": ["A"]}, groups=[families.G(size=3, tryadd=True, procs=2)], maxnodes=0)]
    prio = {"kind": "prio", "label": "submit-jobs"}
    base_tasks = [("fault", (b, ctx.seed * 41 + i, [dict(prio)], True)) for i, b in enumerate(bases)]
    baselines = run_tasks(base_tasks)
    tasks = []
    for (kind_, (scn, seed, _, fm)), btr in zip(base_tasks, baselines):
        for t in range(20, len(btr["moves"]), 6):
            for j in range(0, 64):
                plan = [dict(prio), {"kind": "usertry", "t": t, "when": "free", "host": "user"},
                        {"kind": "delay", "label": "try-submit-jobs", "b": -1, "j": j, "d": 40}]
                tasks.append(("fault", (scn, seed, plan, True)))
    ctx.extra["fine_user_round_points_enumerated"] = len(tasks)
    if cap and len(tasks) > cap:
        tasks = random.Random(ctx.seed + 6).sample(tasks, cap)
    return baselines, tasks


def delay_bases():
    return [
        families.scn("ABC", groups=[families.G(size=1, procs=1)], maxnodes=0),
        families.scn("ABCD", blk={"C": ["A"], "D": ["B"]}, flag="D", rc={"B": 1}, groups=[families.G(size=2, tryadd=False, procs=2)], maxnodes=2),
        families.scn("ABC", blk={"C": ["A", "B"]}, groups=[families.G(size=1, procs=1)], maxnodes=2),
    ]


def protocol_suite(ctx, n_quick=400, n_thorough=4000, gen_kw=None, salt=0):
    q = ctx.tier == "quick"
    fam = families.protocol_quick() if q else families.protocol_thorough()
    ctx.impl_model("JadeImpl protocol", fam, maxb=4 if not q else 3, maxuser=3 if q else 4, max_replay=300 if q else 2000)
    # beyond the exhaustive scope: random 4-5-job scenarios (groups, time-based batching, flags, failures), TLC in simulation
    # mode (random behaviours of the same specification, the monitor evaluated along each), replayed into the code
    srng = random.Random(ctx.seed * 1000 + salt)
    sscns = [scenario.gen(srng, n_min=4, n_max=5, groups_max=2, allow_time=True) for _ in range(3 if q else 12)]
    ctx.impl_model("JadeImpl simulation on random 4-5-job scenarios", sscns, maxb=5, maxuser=4,
                   simulate=f"num={120 if q else 4000}", max_replay=80 if q else 2000, timeout=1500)
    kw = dict(n_min=2, n_max=6 if q else 9, groups_max=2, eager=0.04, onehost=0.2, nodist=0.12, squeue_odd=0.15)
    kw.update(gen_kw or {})
    tasks = [("random_hpc", (s, kw)) for s in seeds(ctx, n_quick if q else n_thorough, salt)]
    ctx.judge(run_tasks(tasks), "random HPC submissions")
    ctx.backward_conformance(160 if q else 2500, salt=salt)
    bl, dt = delay_sweep_tasks(ctx, delay_bases(), cap=450 if q else None)
    ctx.judge(bl + run_tasks(dt), "single-delay sweep of base schedules (each process held at each of its operations)")
    bl, ut = user_round_sweep_tasks(ctx, cap=400 if q else None)
    ctx.judge(bl + run_tasks(ut), "login-node rounds started while batches are active and held at each of their operations")
    bl, ft = fine_user_round_sweep_tasks(ctx, cap=300 if q else None)
    ctx.judge(bl + run_tasks(ft), "the same with every file operation as a scheduling point")


def aborted_round_tasks(ctx):
    """Rounds aborted by an error raised while a batch's files are written (quota exceeded) -- after earlier batches of the
    same round were accepted by the scheduler, before anything is persisted: what the later rounds do with that."""
    q = ctx.tier == "quick"
    return sweep_tasks(ctx, fault_bases(ctx.tier), ["failwrite"], ("submit-jobs", "try-submit-jobs"), fault_mode=True,
                       seeds_per_base=1 if q else 4, detail_re=r"(config_batch_\d+\.json|_batch_\d+\.sh)$")


def check_C01(ctx):
    ctx.model("Batching N<=3 exhaustive", "Batching", "Batching_quick.cfg")
    protocol_suite(ctx, salt=1)
    bl, ft = aborted_round_tasks(ctx)
    ctx.judge(bl + run_tasks(ft), "rounds aborted by a failed write of a batch file, then the other nodes' and the user's rounds")
    return ctx.finish(rule=RULE_PROTOCOL)


def make_protocol_check(salt, gen_kw=None, extra=None):
    def chk(ctx):
        protocol_suite(ctx, salt=salt, gen_kw=gen_kw)
        if extra:
            extra(ctx)
        return ctx.finish(rule=RULE_PROTOCOL + ("; plus " + (extra.__doc__ or extra.__name__).strip().split("\n")[0] if extra else ""))
    return chk


def histories_extra(ctx):
    """Histories with resubmissions (epochs) and cancellations."""
    q = ctx.tier == "quick"
    kw = dict(n_min=2, n_max=6, groups_max=1)
    tasks = [("resubmit", (s, kw, 1 + (s % 2))) for s in seeds(ctx, 120 if q else 2000, 71)]
    tasks += [("random_cancel", (s, dict(n_min=3, n_max=6, groups_max=1))) for s in seeds(ctx, 60 if q else 1000, 72)]
    tasks += small_resubmit_tasks(ctx, 300 if q else 4000)
    ctx.judge(run_tasks(tasks), "histories with resubmissions and cancellations")
    if ctx.prop == "C09":
        # rounds that end with an error raised outside the status files (quota exceeded while writing a batch's files):
        # what the error path persists must still be consistent
        bl, ft = sweep_tasks(ctx, fault_bases(ctx.tier), ["failwrite"], ("submit-jobs", "try-submit-jobs"), fault_mode=True,
                             locklibs=("never",), seeds_per_base=10 if q else 40, detail_re=r"(config_batch_\d+\.json|_batch_\d+\.sh)$")
        ctx.judge(bl + run_tasks(ft), "rounds aborted by a failed write of a batch file")


def batching_inputs(n, maxest=2, capextra=2):
    """Python enumeration of Batching.tla's Init space (same constraints)."""
    import itertools
    names = list(range(1, n + 1))
    remsets = []
    for j in names:
        others = [0] + [k for k in names if k != j]
        remsets.append([list(c) for r in range(len(others) + 1) for c in itertools.combinations(others, r)])
    for rem in itertools.product(*remsets):
        for tb in (False, True):
            ests = itertools.product(range(1, maxest + 1), repeat=n) if tb else [tuple([1] * n)]
            for est in ests:
                for tryadd in (False, True):
                    for cap in (range(maxest, maxest + capextra + 1) if tb else [maxest]):
                        for size in ([1] if tb else range(1, n + 1)):
                            for mn in range(1, n + 1):
                                yield {"rem": [list(r) for r in rem], "est": list(est), "tb": tb, "tryadd": tryadd,
                                       "cap": cap, "size": size, "maxnodes": mn, "repaired": True}


def check_batching_conformance(ctx, traces):
    """TLC (BatchTrace.tla) decides whether each observed (input, batches) pair is what the closed form computes."""
    obs = []
    for i, tr in enumerate(traces):
        o = dict(tr["batching_obs"])
        o["id"] = i
        obs.append(o)
    path = os.path.join(VERIF, "out", f"batchobs_{os.getpid()}.json")
    with open(path, "w") as f:
        json.dump(obs, f)
    res = tlc.run_tlc("BatchTrace", cfg="BatchTrace.cfg", workers=1, env={"TRACE_FILE": path}, timeout=3000)
    os.remove(path)
    if not tlc.tlc_ok(res):
        raise tlc.TlcError("BatchTrace failed:\n" + res["out"][-2000:])
    dis = [l for l in res["out"].split("\n") if "DISAGREE" in l]
    conf = ctx.extra.setdefault("batching_conformance", {"observed_inputs": 0, "disagreements": 0})
    conf["observed_inputs"] += len(obs)
    conf["disagreements"] += len(dis)
    for l in dis[:5]:
        ctx.notes.append("model-drift: batches observed on the real code differ from Batching's closed form: " + l[:300])
    ctx.models.append({"name": "BatchTrace (observed batches vs closed form)", "module": "BatchTrace", "states": res["distinct"],
                       "transitions": res["states"], "wall_s": round(res["wall"], 1), "ok": True})


def check_C07(ctx):
    q = ctx.tier == "quick"
    ctx.model("Batching N<=3 exhaustive", "Batching", "Batching_quick.cfg")
    rng = random.Random(ctx.seed)
    allin = list(batching_inputs(3))
    inter = [x for x in allin if x["tryadd"] and any(r for r in x["rem"])]
    pick = allin if not q else (rng.sample(inter, 900) + rng.sample(allin, 600))
    if not q:
        ctx.extra["batching_inputs_enumerated"] = len(allin)
    tr1 = run_tasks([("batching_input", (inp, 0)) for inp in pick])
    check_batching_conformance(ctx, tr1)
    ctx.judge(tr1, "enumerated batching inputs (first round of the real submit-jobs)")
    kw = dict(n_min=2, n_max=8 if q else 12, groups_max=3)
    tr2 = run_tasks([("dry_pair", (s, kw)) for s in seeds(ctx, 300 if q else 3000, 7)])
    ctx.judge(tr2, "random job lists with 1-3 groups: real first round and dry run")
    tr3 = run_tasks([("random_hpc", (s, dict(n_min=2, n_max=6, groups_max=3))) for s in seeds(ctx, 150 if q else 1500, 8)])
    ctx.judge(tr3, "random HPC submissions with 1-3 groups")
    # "its group's parameters" after `resubmit-jobs -s FILE`: the rerun is batched, limited and submitted with the new ones
    tr4 = run_tasks(regroup_tasks(ctx, 120 if q else 2500))
    ctx.extra["regrouped_resubmissions"] = sum(1 for t in tr4 if any(e.get("e") == "regroup" for e in t["ev"]))
    ctx.judge(tr4, "completed submissions resubmitted with replaced group parameters (resubmit-jobs -s)")
    # ... and in the protocol model: UserResubmit may pass the scenario's replacement parameters, RReset makes them the ones the
    # batching actions read; every interleaving of both epochs, behaviours replayed into the code (with the real -s FILE)
    ctx.impl_model("JadeImpl + resubmit-jobs -s (replaced group parameters)",
                   [families.scn("AB", blk={"B": ["A"]}, rc={"A": 1, "B": 1}, groups=[families.G(size=1, procs=1)], maxnodes=1,
                                 regroup=[families.G(size=2, tryadd=True, procs=2, verbose=True)]),
                    families.scn("ABC", rc={"A": 1, "C": 1}, groups=[families.G(size=3, procs=1)], maxnodes=1,
                                 regroup=[families.G(size=1, procs=2, qos="high")])],
                   maxb=4, maxuser=2, max_replay=100 if q else 1500, resub=[["--failed", "--missing"]], timeout=1500)
    return ctx.finish(rule="(a) TLC enumerates all batching inputs N<=3 on Batching.tla; (b) the same input space is enumerated in "
                           "Python (quick: stratified sample; thorough: all) and executed on the real submit-jobs, the observed "
                           "batches validated by TLC against the closed form (BatchTrace.tla) and the traces against the C07 "
                           "clauses; (c) random job lists <=12 jobs with 1-3 groups and random group parameters, each run for real "
                           "and as dry run (DryRunSame); (d) random full submissions; (e) completed submissions with failed jobs "
                           "resubmitted with replaced group parameters (-s): the rerun's batches are judged against the new "
                           "parameters", exhaustive=not q)


def small_model(ctx, name, module, consts, invariants, defs="", view="View", dump=True, workers=NCPU, timeout=1500):
    """Run TLC on a generated MC module that EXTENDS `module` and defines constants as operators."""
    gen = os.path.join(VERIF, "out", "gen")
    os.makedirs(gen, exist_ok=True)
    mod = "MC_" + re.sub(r"[^A-Za-z0-9]", "_", name) + f"_{os.getpid()}"
    lines = [f"---- MODULE {mod} ----", f"EXTENDS {module}", ""]
    cfg = ["SPECIFICATION Spec", "CONSTANTS"]
    for k, v in consts.items():
        lines.append(f"MC_{k} == {genmc.tla(v)}")
        cfg.append(f"  {k} <- MC_{k}")
    lines += [defs, "===="]
    if view:
        cfg.append(f"VIEW {view}")
    cfg += [f"INVARIANT {i}" for i in invariants]
    if dump:
        cfg.append("INVARIANT DumpBehaviour")
    cfg.append("CHECK_DEADLOCK FALSE")
    with open(os.path.join(gen, mod + ".tla"), "w") as f:
        f.write("\n".join(lines) + "\n")
    cfgp = os.path.join(gen, mod + ".cfg")
    with open(cfgp, "w") as f:
        f.write("\n".join(cfg) + "\n")
    res = tlc.run_tlc(mod, cfg=cfgp, workers=workers, cwd=gen, timeout=timeout)
    for ext in (".tla", ".cfg"):
        try:
            os.remove(os.path.join(gen, mod + ext))
        except OSError:
            pass
    ok = tlc.tlc_ok(res)
    ctx.models.append({"name": name, "module": module, "states": res["distinct"], "transitions": res["states"],
                       "wall_s": round(res["wall"], 1), "ok": ok, "mode": "exhaustive"})
    if not ok:
        raise tlc.TlcError(f"model {name} did not pass:\n" + res["out"][-6000:])
    return res


def tlc_digest(out):
    """The essential lines of a failed TLC run (error lines, violated monitor clauses, the path history)."""
    errs = [l for l in out.split("\n") if l.startswith("Error:") or "is violated" in l][:8]
    viol = re.findall(r"viol \|-> (\{[^}]*\})", out)
    pth = re.findall(r"/\\ path = (<<.*?>>)\n(?:/\\|\n|$)", out, re.S)
    return "\n".join(errs) + "\nviol: " + (viol[-1] if viol else "?") + "\npath: " + (re.sub(r"\s+", " ", pth[-1])[:1500] if pth else "?")


def cex_path(tlc_out):
    """The `path` history variable of the last state of a TLC counterexample, as a Python list."""
    mm = re.findall(r"/\\ path = (<<.*?>>)\n(?:/\\|\n|$)", tlc_out, re.S)
    if not mm:
        return None
    txt = re.sub(r"\s+", " ", mm[-1]).replace("<<", "[").replace(">>", "]")
    try:
        return json.loads(txt)
    except ValueError:
        return None


def note_conformance(ctx, traces, key="conformance"):
    conf = ctx.extra.setdefault(key, {"replayed": 0, "diverged": 0, "event_diffs": 0})
    for tr in traces:
        c = tr.get("conformance") or {}
        if c.get("skipped"):
            conf["not_replayable_glob_order"] = conf.get("not_replayable_glob_order", 0) + 1
            continue
        if "diverged" not in c:
            continue
        conf["replayed"] += 1
        if c.get("diverged"):
            conf["diverged"] += 1
            ctx.notes.append("model-drift: schedule could not be followed: " + json.dumps(c["diverged"])[:300])
        elif c.get("diff"):
            conf["event_diffs"] += 1
            ctx.notes.append("model-drift: predicted and observed differ: " + json.dumps(c["diff"])[:300])


def check_C08(ctx):
    q = ctx.tier == "quick"
    plans = run_api.results_plans()
    rng = random.Random(ctx.seed)
    tasks = []
    for plan in plans:
        mp = {"appenders": plan["appenders"], "collectors": plan["collectors"], "readers": plan["readers"]}
        res = small_model(ctx, f"Results {plan['id']}", "Results",
                          {"Plan": mp, "Scn": scenario.tla_scn(plan["scn"], plan["id"]), "Log": True},
                          ["P_C08", "N_Conserved", "N_ReportedOnce", "N_AllCollectedAtEnd"])
        behs = replay_model.parse_behaviours(res["out"])
        behs.sort(key=lambda b: json.dumps(b["path"]))
        if len(behs) > (150 if q else 1500):
            behs = rng.sample(behs, 150 if q else 1500)
        tasks += [("results", (plan, 0, b["path"])) for b in behs]
        tasks += [("results", (plan, s, None)) for s in seeds(ctx, 100 if q else 1500, hash(plan["id"]) % 97)]
        # ... and with every file operation (also those on the lock files) as a scheduling point
        tasks += [("results", (plan, s, None, True)) for s in seeds(ctx, 150 if q else 2500, hash(plan["id"]) % 89)]
    traces = run_tasks(tasks)
    note_conformance(ctx, traces)
    ctx.judge(traces, "real ResultsAggregator under model schedules and random schedules (lock-operation granularity)",
              ignore_other=True)
    # the aggregator inside whole submissions
    kw = dict(n_min=3, n_max=7, groups_max=1)
    ctx.judge(run_tasks([("random_hpc", (s, kw)) for s in seeds(ctx, 150 if q else 2000, 5)]), "random HPC submissions")
    bl, ft = fine_user_round_sweep_tasks(ctx, cap=300 if q else None)
    ctx.judge(bl + run_tasks(ft), "login-node rounds held at each file operation while nodes append")
    # the consolidated file rewritten by resubmit-jobs (rows of the rerun jobs pruned), then appended to by the next rounds
    rt = small_resubmit_tasks(ctx, 160 if q else 3000) + [("resubmit", (s, dict(n_min=2, n_max=6, groups_max=1), 1 + (s % 2)))
                                                          for s in seeds(ctx, 60 if q else 1000, 74)]
    ctx.judge(run_tasks(rt), "resubmitted submissions: collection into the consolidated file rewritten by resubmit-jobs")
    return ctx.finish(rule="Results.tla: all interleavings of 2-3 appenders with 2 collectors (1-3 rounds, canceled rows) and a "
                           "reader at lock-operation granularity; the model's complete behaviours and random schedules executed "
                           "on the real ResultsAggregator in virtual processes parked at every lock operation, and random schedules "
                           "with every file operation (result files and lock files) as a scheduling point; plus rows/collected "
                           "events of whole submissions, incl. login-node rounds held at each of their file operations, and of "
                           "resubmitted submissions (the consolidated file rewritten by resubmit-jobs, then appended to)")


FIXED = {"F1", "F9", "F2"}      # findings repaired in the current tree (the models follow the code)


def check_C10(ctx):
    q = ctx.tier == "quick"
    plans = run_api.cluster_scripts()
    rng = random.Random(ctx.seed)
    tasks = []
    for plan in plans:
        try:
            res = small_model(ctx, f"ClusterStore {plan['id']}", "ClusterStore",
                              {"Scripts": plan["scripts"], "Scn": scenario.tla_scn(run_api.cluster_scn(), plan["id"]), "Log": True,
                               "FixedF9": "F9" in FIXED, "Modern": bool(plan.get("modern"))},
                              ["P_C10", "N_OneRole", "N_RoleMatchesDisk"] +
                              (["N_VersionFileNeverBehind", "N_AheadOnlyAfterCrash"] if plan.get("modern") else ["N_VersionFilesAgree"]))
        except tlc.TlcError as e:
            # a counterexample of the model is first replayed on the real code: only a real trace can be a violation
            cp = cex_path(str(e))
            if cp is None:
                raise
            ctx.models[-1]["counterexample_replayed"] = cp
            tasks.append(("cluster", (plan, 0, cp, None)))
            tasks += [("cluster", (plan, s, None, None)) for s in seeds(ctx, 60, hash(plan["id"]) % 89)]
            continue
        behs = replay_model.parse_behaviours(res["out"])
        behs.sort(key=lambda b: json.dumps(b["path"]))
        if len(behs) > (120 if q else 2000):
            behs = rng.sample(behs, 120 if q else 2000)
        tasks += [("cluster", (plan, 0, b["path"], b.get("elog", []))) for b in behs]
        tasks += [("cluster", (plan, s, None, None)) for s in seeds(ctx, 60 if q else 1000, hash(plan["id"]) % 89)]
    traces = run_tasks(tasks)
    note_conformance(ctx, traces)
    ctx.judge(traces, "real Cluster API: handles running operation scripts under model and random schedules", ignore_other=True)
    kw = dict(n_min=2, n_max=6, groups_max=1)
    ctx.judge(run_tasks([("random_hpc", (s, kw)) for s in seeds(ctx, 200 if q else 3000, 6)]), "random HPC submissions")
    # commands that are refused the role must leave it alone: resubmit-jobs on a submission in progress while a compute node
    # (another host / the same host) is submitter, followed by the rest of the run
    rt = []
    for v in ("held-other", "held-same", "quiet"):
        rt += [("resubmit_incomplete", (s, kw, v)) for s in seeds(ctx, 30 if q else 400, 63)]
    ctx.judge(run_tasks(rt), "resubmit-jobs on submissions in progress while a node holds the role")
    return ctx.finish(rule="ClusterStore.tla: all interleavings of load/promote/demote/update/job-status-only/cancel operations of "
                           "2-3 handles on 2 hosts (each one cluster-lock hold), incl. handles loaded before others changed the "
                           "state; the model's behaviours and random schedules executed on the real Cluster class; plus promote/"
                           "status events of whole submissions")


def fault_bases(tier):
    q = tier == "quick"
    bases = [
        families.scn("ABCD", blk={"B": ["A"], "D": ["C"]}, flag="D", rc={"C": 1}, groups=[families.G(size=1, procs=1)], maxnodes=2),
        families.scn("ABC", blk={"C": ["A", "B"]}, groups=[families.G(size=2, tryadd=True, procs=2)], maxnodes=1),
    ]
    if not q:
        bases += [
            families.scn("ABCDE", blk={"B": ["A"], "C": ["B"], "E": ["D"]}, flag="CE", rc={"A": 1}, groups=[families.G(size=2, tryadd=True, procs=1)], maxnodes=2),
            families.scn("ABCD", blk={"D": ["A"]}, groups=[families.G(tb=True, tryadd=True, procs=1)], est={"A": 5, "B": 5, "C": 8, "D": 3}, maxnodes=2),
        ]
    return bases


def sweep_tasks(ctx, bases, kinds, labels, fault_mode, locklibs=("never", "modern"), seeds_per_base=1, cap=None, detail_re=None):
    """Systematic single-fault sweep: for every base schedule, every process with one of `labels`, every step k."""
    rng = random.Random(ctx.seed)
    base_tasks = []
    for bi, b in enumerate(bases):
        for s in range(seeds_per_base):
            for ll in locklibs:
                scn = dict(b, locklib=ll, faults=True)
                base_tasks.append(("fault", (scn, ctx.seed * 131 + bi * 17 + s, None, fault_mode)))
    baselines = run_tasks(base_tasks)
    tasks = []
    points = 0
    for (kind_, (scn, seed, _, fm)), btr in zip(base_tasks, baselines):
        for pid, o in sorted(btr["ops"].items(), key=lambda x: int(x[0])):
            if o["label"] not in labels:
                continue
            for k, (op, detail) in enumerate(o["ops"]):
                for kind in kinds:
                    if kind == "failwrite" and op != "audit":
                        continue
                    if kind == "faillock" and op != "lock_try":
                        continue
                    if detail_re and not re.search(detail_re, detail):
                        continue
                    points += 1
                    tasks.append(("fault", (scn, seed, {"kind": kind, "pid": int(pid), "k": k, "at": [op, detail]}, fm)))
    if cap and len(tasks) > cap:
        tasks = rng.sample(tasks, cap)
    ctx.extra["fault_points_enumerated"] = ctx.extra.get("fault_points_enumerated", 0) + points
    return baselines, tasks


def check_C11(ctx):
    q = ctx.tier == "quick"
    fam = families.protocol_quick()[:3] if q else families.protocol_quick()
    for fk in (["kill"], ["squeue"], ["sbatch"]):
        ctx.impl_model("JadeImpl + " + fk[0] + " fault", fam, maxb=3, maxuser=5, faults=fk, maxfaults=1, max_replay=120 if q else 1500)
    bases = fault_bases(ctx.tier)
    subm = ("submit-jobs", "try-submit-jobs")
    # kills at every boundary operation (lock operation, external command) of every submitter round
    bl1, t1 = sweep_tasks(ctx, bases, ["kill", "faillock"], subm, fault_mode=False, cap=None if not q else 700)
    # thorough: additionally at every file mutation, and a failed write (quota) at every write
    allfirst = families.scn("ABC", groups=[families.G(size=2, procs=1)], maxnodes=0)      # everything handed over by submit-jobs
    bl2, t2 = sweep_tasks(ctx, bases[:1] if q else bases + [allfirst], ["kill", "failwrite"], subm, fault_mode=True, cap=500 if q else None)
    # quick: t2 is a sample -- the writes of the status files (cluster_config.json, job_status.json and their version files:
    # a round that fails between them leaves counters and job states in disagreement) are always swept completely
    bl3, t3 = sweep_tasks(ctx, bases + [allfirst], ["failwrite"], subm, fault_mode=True,
                          detail_re=r"(version\.txt|job_status\.json|cluster_config\.json)$") if q else ([], [])
    traces = run_tasks(t1 + t2 + t3)
    bl2 = bl2 + bl3
    ctx.extra["fault_runs_injected"] = sum(1 for t in traces if t.get("injected"))
    ctx.judge(bl1 + bl2 + traces, "single-fault sweep over submitter rounds (kill / lock failure / write failure), both lock policies, "
              "then recovery rounds")
    # failed scheduler queries and failed sbatch calls
    kw = dict(n_min=3, n_max=6, groups_max=1, squeue_faults=1.0)
    ctx.judge(run_tasks([("random_hpc", (s, kw)) for s in seeds(ctx, 150 if q else 2000, 31)]), "random submissions with a failed scheduler query")
    return ctx.finish(level="fault_enumeration", rule="systematic sweep: base schedules x every submitter process x every boundary operation (thorough/"
                           "fault mode: every file mutation under the output directory) x {SIGKILL, failed lock acquisition, "
                           "failed write (EDQUOT)} x lock-library policy {never break, break stale/malformed markers}, each "
                           "followed by the remaining nodes' own rounds and up to 3 user try-submit-jobs; plus random "
                           "submissions with a failed squeue query; distinct = distinct (scenario, schedule, fault point)")


def check_C12(ctx):
    q = ctx.tier == "quick"
    fam = families.protocol_quick()[:3] if q else families.protocol_quick()
    for fk in (["nodekill"], ["sbatch"]):
        ctx.impl_model("JadeImpl + " + fk[0] + " fault", fam, maxb=3, maxuser=5, faults=fk, maxfaults=1 if q else 2,
                       max_replay=120 if q else 1500)
    # K1 at the protocol level: a runner killed inside its results-lock critical section leaves the marker; every later
    # collection times out on it (MoveBlocked) and no number of recovery rounds completes the submission -- TLC must find it
    try:
        ctx.impl_model("JadeImpl + runner killed inside the results-lock critical section (expected to fail: K1)",
                       [families.scn("AB", groups=[families.G(size=2, procs=1)], maxnodes=0)], maxb=3, maxuser=4,
                       faults=("nodekill-locked",), maxfaults=1, max_replay=0)
        raise HarnessError("the protocol model no longer shows the K1 counterexample")
    except tlc.TlcError as e:
        if "CompletesAfterRecovery" not in str(e):
            raise
        ctx.models[-1]["ok"] = True
        ctx.models[-1]["expected_violation"] = "MonitorClean (CompletesAfterRecovery): K1"
    bases = fault_bases(ctx.tier)
    # every subset of batches failing at sbatch (base scenarios have <= 4 batches)
    import itertools
    tasks = []
    for bi, b in enumerate(bases):
        for r in range(0, 4):
            for sub in itertools.combinations(range(1, 5), r):
                scn = dict(b, sbatch_fail={str(x): 7 for x in sub}, nodefaults=True)
                tasks.append(("fault", (scn, ctx.seed + bi, None, False)))
    # node killed at every point of every runner
    bl, t2 = sweep_tasks(ctx, bases, ["nodekill"], ("run-jobs",), fault_mode=False, locklibs=("never",), seeds_per_base=2 if q else 6)
    # ... and at every lock operation / file mutation of a runner (fault mode), both lock-library policies
    bl3, t3 = sweep_tasks(ctx, bases[1:2] if q else bases, ["nodekill"], ("run-jobs",), fault_mode=True, seeds_per_base=1 if q else 3)
    bl, t2 = bl + bl3, t2 + t3
    # a node killed at every runner operation WHILE a user's try-submit-jobs (started as soon as nobody is submitter and a
    # batch is active) is held at its j-th operation: every pair (j, k)
    rngx = random.Random(ctx.seed + 5)
    cross = []
    for bi, (b0, btr) in enumerate(zip(bases, bl[:len(bases)])):
        scn = dict(b0, locklib="never", faults=True)
        seed = ctx.seed * 131 + bi * 17
        for pid, o in btr["ops"].items():
            if o["label"] != "run-jobs":
                continue
            b = next(e["b"] for e in btr["ev"] if e["e"] == "proc" and e["pid"] == int(pid))
            for k in range(len(o["ops"]) + 1):
                for j in range(0, 10):
                    cross.append(("fault", (scn, seed, [{"kind": "usertry", "when": "free"}, {"kind": "stall", "j": j},
                                                         {"kind": "nodekill", "b": b, "k": k}], False)))
    ctx.extra["cross_points_enumerated"] = len(cross)
    if len(cross) > (600 if q else 6000):
        cross = rngx.sample(cross, 600 if q else 6000)
    t2 = t2 + cross
    # dependency cycles
    cyc = [families.scn("ABC", blk={"A": ["B"], "B": ["A"]}, groups=[families.G(size=2, tryadd=True, procs=2)], maxnodes=2),
           families.scn("ABCD", blk={"A": ["B"], "B": ["C"], "C": ["A"], "D": ["A"]}, flag="D", groups=[families.G(size=1)], maxnodes=0)]
    tasks += [("fault", (c, ctx.seed + i, None, False)) for i, c in enumerate(cyc) for _ in range(1)]
    kw = dict(n_min=3, n_max=7, groups_max=2)
    tasks += [("random_nodefaults", (s, kw)) for s in seeds(ctx, 200 if q else 3000, 41)]
    traces = run_tasks(tasks + t2)
    ctx.judge(bl + traces, "failed sbatch subsets, node kills at every runner operation, dependency cycles, random node faults; recovery")
    return ctx.finish(level="fault_enumeration", rule="every subset (<=3) of batches failing at sbatch on the base scenarios; a node killed at every boundary "
                           "operation of every runner (2+ schedules per base); dependency cycles; random DAGs with random failed "
                           "sbatch calls and a node kill at a random point; each followed by the documented try-submit-jobs "
                           "recovery and judged at results.json")


def check_C14(ctx):
    q = ctx.tier == "quick"
    # JadeImpl with the user's cancel-jobs enabled in every state (TLC: every moment of cancellation), replayed into the code
    mfam = [families.scn("ABC", groups=[families.G(size=1, procs=1)], maxnodes=2),
            families.scn("ABC", blk={"C": ["A"]}, groups=[families.G(size=2, tryadd=False, procs=2)], maxnodes=1)]
    qfam = [families.scn("AB", groups=[families.G(size=1, procs=1)], maxnodes=1)]
    ctx.impl_model("JadeImpl + cancel-jobs at any moment", qfam if q else mfam, maxb=2 if q else 3, maxuser=2 if q else 4, usercancel=True,
                   max_replay=150 if q else 3000, timeout=3000)
    # ... and liveness: a cancellation ends the submission (complete, nothing queued or running), and marks it canceled
    ctx.impl_liveness("JadeImpl liveness under cancel-jobs", qfam if q else mfam, maxb=2 if q else 3, maxuser=2 if q else 3, usercancel=True)
    bases = [
        families.scn("ABCD", groups=[families.G(size=1, procs=1)], maxnodes=2),
        families.scn("ABCD", blk={"B": ["A"], "D": ["C"]}, groups=[families.G(size=1, procs=1)], maxnodes=2),
        families.scn("ABC", blk={"C": ["A"]}, groups=[families.G(size=2, tryadd=False, procs=2)], maxnodes=1),
    ]
    base_tasks = [("fault", (b, ctx.seed + i, None, False)) for i, b in enumerate(bases)]
    bl = run_tasks(base_tasks)
    tasks = []
    afters = [[], [["try-submit-jobs", "{out}"]], [["show-status", "-o", "{out}", "-n"], ["try-submit-jobs", "{out}"]]]
    # "final" also against a later resubmit-jobs on the canceled (and then completed) submission: nothing is handed over
    resub_after = [["try-submit-jobs", "{out}"], ["resubmit-jobs", "{out}"], ["try-submit-jobs", "{out}"]]
    for i, (b, btr) in enumerate(zip(bases, bl)):
        for t in range(1, len(btr["moves"]) + 1, 1 if not q else 2):     # cancel issued at every scheduling step
            for a in (afters if not q else afters[:2]):
                tasks.append(("cancel", (b, ctx.seed + i, t, a)))
            if t % (3 if q else 1) == 1:
                tasks.append(("cancel", (b, ctx.seed + i, t, resub_after)))
    afters = afters + [resub_after]
    # ... and at the quiet moments: every batch has ended, jobs are still unsubmitted (max-nodes 1: a node's own round can never
    # submit), the user has run the recovery k times -- no HPC job id is recorded then
    quiet = [families.scn("ABC", groups=[families.G(size=1, procs=1)], maxnodes=1),
             families.scn("ABCD", blk={"D": ["A"]}, groups=[families.G(size=2, tryadd=False, procs=2)], maxnodes=1)]
    for i, b in enumerate(quiet):
        for k in range(0, 3):
            for a in afters:
                for sd in range(1 if q else 4):
                    tasks.append(("cancel_quiet", (b, ctx.seed + 50 + i + 7 * sd, k, a)))
                    tasks.append(("cancel_quiet", (b, ctx.seed + 50 + i + 7 * sd, k, a, True)))
    ctx.extra["cancel_moments_enumerated"] = len(tasks)
    tasks += [("random_cancel", (s, dict(n_min=3, n_max=7, groups_max=1))) for s in seeds(ctx, 150 if q else 2500, 51)]
    ctx.judge(bl + run_tasks(tasks), "cancel-jobs issued at every scheduling step of base schedules and at random moments of random "
              "submissions, followed by try-submit-jobs / show-status sequences")
    return ctx.finish(rule="cancel-jobs at every scheduling step of 3 base schedules (batches queued / running / some finished / jobs "
                           "unsubmitted because of max-nodes or dependencies) x follow-up command sequences; random DAGs with the "
                           "cancel at a random moment and 0-3 random follow-up commands")


def check_C16(ctx):
    q = ctx.tier == "quick"
    allh = {"setup": True, "teardown": True, "nsetup": True, "nteardown": True}
    nodeh = {"setup": False, "teardown": False, "nsetup": True, "nteardown": True}
    subh = {"setup": True, "teardown": True, "nsetup": False, "nteardown": False}
    # JadeImpl with the lifecycle commands as actions (Teardown between Summary and MarkComplete; NodeSetup / NodeTeardown
    # around the node's queue): every interleaving, monitor clauses as invariants, behaviours replayed into the code
    ctx.impl_model("JadeImpl with lifecycle commands",
                   [families.scn("AB", groups=[families.G(size=1, procs=1)], maxnodes=0, hooks=allh),
                    families.scn("ABC", blk={"C": ["A"]}, rc={"B": 1}, groups=[families.G(size=2, procs=2)], maxnodes=1, hooks=allh),
                    families.scn("AB", blk={"B": ["A"]}, flag="B", rc={"A": 1}, groups=[families.G(size=1, procs=1)], maxnodes=1, hooks=nodeh),
                    families.scn("AB", groups=[families.G(size=2, procs=1)], maxnodes=1, hooks=subh)],
                   maxb=3, maxuser=3, max_replay=200 if q else 1500)
    tasks = []
    n = 3 if q else 30
    for combo in range(16):
        for local in (False, True):
            for k in range(n):
                tasks.append(("hooks", (ctx.seed * 1000 + combo * 64 + k * 2 + int(local), combo, local,
                                        True if k % 3 == 1 else ("node" if k % 3 == 2 else False))))
    ctx.judge(run_tasks(tasks), "all 16 set/unset combinations of the four lifecycle commands, local and HPC mode, random DAGs")
    # "once per completion" includes the completion of a canceled submission (and of its resubmission): cancel-jobs at any
    # moment in the model with the commands as actions; on the code, cancel-jobs at every (other) step of base schedules
    ctx.impl_model("JadeImpl with lifecycle commands + cancel-jobs at any moment",
                   [families.scn("AB", groups=[families.G(size=1, procs=1)], maxnodes=1, hooks=allh)],
                   maxb=2, maxuser=2, usercancel=True, max_replay=120 if q else 1500, timeout=3000)
    cbases = [families.scn("ABC", blk={"C": ["A"]}, groups=[families.G(size=1, procs=1)], maxnodes=2, hooks=allh),
              families.scn("ABCD", rc={"B": 1}, groups=[families.G(size=2, procs=2)], maxnodes=1, hooks=subh)]
    cbl = run_tasks([("fault", (b, ctx.seed + 11 + i, None, False)) for i, b in enumerate(cbases)])
    ctasks = []
    for i, (b, btr) in enumerate(zip(cbases, cbl)):
        for t in range(1, len(btr["moves"]) + 1, 3 if q else 1):
            for a in ([[["try-submit-jobs", "{out}"]]] if q else [[], [["try-submit-jobs", "{out}"]]]):
                ctasks.append(("cancel", (b, ctx.seed + 11 + i, t, a)))
    # "exactly once": a resubmission is not a new submission -- the setup command does not run again, whether the
    # resubmission selects some of the jobs or every one of them; the teardown command runs once per completion
    rtasks = []
    for i, s in enumerate(seeds(ctx, 12 if q else 120, 57)):
        sc = families.scn("ABC", blk=[{}, {"C": ["A"]}, {"B": ["A"], "C": ["B"]}][i % 3], rc=[{}, {"A": 1}, {"A": 1, "B": 2, "C": 1}][(i // 3) % 3],
                          groups=[families.G(size=1 + i % 3, tryadd=bool(i % 2), procs=2)], maxnodes=(0, 1, 2)[i % 3], hooks=[allh, subh][i % 2])
        fss = [["--successful", "--failed", "--missing"], ["--failed", "--missing"], ["--successful"]][i % 3]
        rtasks.append(("resubmit_scn", (sc, s, [fss] if i % 4 else [fss, ["--successful", "--failed", "--missing"]], None)))
    ctx.judge(run_tasks(rtasks), "submissions with lifecycle commands resubmitted (some jobs / every job; once or twice)")
    ctx.extra["cancel_moments_with_hooks"] = len(ctasks)
    ctx.judge(cbl + run_tasks(ctasks), "cancel-jobs at every step of submissions with lifecycle commands (teardown of a canceled completion)")
    return ctx.finish(rule="JadeImpl with the four commands as actions explored on 4 small scenarios and replayed into the code; "
                           "16 combinations of setup/teardown/node-setup/node-teardown commands x {local, HPC} x random DAGs (2-5 jobs, "
                           "passing and failing jobs, failing teardown command in a third of the runs, failing node teardown command in "
                           "another third) x random schedules; canceled completions (cancel-jobs at any moment in the model, at "
                           "every step of base schedules on the code); hook "
                           "commands are served by the controller and recorded with their environment")


def resubmit_observations(traces):
    """From traces of the real `resubmit-jobs` on completed submissions: (state before, last summary, flags) and what the
    command wrote before it started submitting (first status of that process with the completion flag cleared)."""
    obs = []
    for tr in traces:
        ev = tr["ev"]
        jobs = tr["scn"]["jobs"]
        for i, e in enumerate(ev):
            if e.get("e") != "proc" or e.get("k") != "resubmit-jobs":
                continue
            before = next((x for x in reversed(ev[:i]) if x.get("e") == "status" and x.get("dir", "out") == "out"), None)
            summ = next((x for x in reversed(ev[:i]) if x.get("e") == "summary"), None)
            if before is None or summ is None or not before["complete"]:
                continue
            after = None
            for x in ev[i + 1:]:
                if x.get("e") == "proc" and x.get("k") == "resubmit-jobs":
                    break
                if x.get("e") == "status" and x.get("pid") == e["pid"] and not x["complete"]:
                    after = x
                    break
            if after is None:
                continue
            out = {j: "missing" for j in jobs}
            for r in summ["res"]:
                out[r[0]] = "canceled" if r[2] == "canceled" else ("successful" if int(r[1]) == 0 else "failed")
            fl = e.get("flags", [])
            obs.append({"kind": "resubmit", "jobs": jobs, "blk": {j: list(tr["scn"]["blk"][j]) for j in jobs}, "out": out,
                        "st": {j: before["st"][j] for j in jobs},
                        "fl": {"failed": "--no-failed" not in fl, "missing": "--no-missing" not in fl, "successful": "--successful" in fl},
                        "st2": {j: after["st"][j] for j in jobs}, "rem2": {j: list(after["rem"][j]) for j in jobs},
                        "nsub2": after["nsub"], "ndone2": after["ndone"], "complete2": bool(after["complete"]),
                        "rows2": list(after["rows"]), "driver": tr.get("driver")})
    return obs


def check_C13(ctx):
    q = ctx.tier == "quick"
    kw = dict(n_min=2, n_max=6, groups_max=1)
    tasks = [("resubmit", (s, kw, 1 + (s % 2))) for s in seeds(ctx, 200 if q else 3000, 61)]
    for v in ("quiet", "held-other", "held-same"):
        tasks += [("resubmit_incomplete", (s, kw, v)) for s in seeds(ctx, 40 if q else 500, 62)]
    tasks += small_resubmit_tasks(ctx, 500 if q else 6000)
    ctx.model("Resubmit computation (all completed submissions <= 3 jobs x outcomes x flags)", "Resubmit", "Resubmit_machine.cfg",
              workers=4)
    # the known finding K2 as a property of the computation: without --missing a rerun job may stop waiting for a blocker
    # that has no outcome -- TLC must find that counterexample (if it no longer does, the model or the finding changed)
    neg = ctx.model("Resubmit computation: dropped blockers have outcomes also without --missing (expected to fail: K2)",
                    "Resubmit", "Resubmit_k2.cfg", workers=2, expect_ok=False)
    ctx.models[-1]["expected_violation"] = "R_DroppedBlockersHaveOutcomeAlways"
    ctx.models[-1]["ok"] = "R_DroppedBlockersHaveOutcomeAlways is violated" in neg["out"]
    if not ctx.models[-1]["ok"]:
        raise tlc.TlcError("Resubmit_k2.cfg no longer shows the K2 counterexample:\n" + neg["out"][-1500:])
    # the protocol model with resubmit-jobs as a process of its own (UserResubmit / RPromote / RReset, then an ordinary round):
    # every interleaving of both epochs, the epoch-aware clauses as invariants, behaviours replayed into the code
    ctx.impl_model("JadeImpl + resubmit-jobs on the completed submission",
                   [families.scn("AB", blk={"B": ["A"]}, rc={"A": 1}, groups=[families.G(size=1, procs=1)], maxnodes=0),
                    families.scn("ABC", blk={"C": ["A"]}, flag="C", rc={"A": 1}, groups=[families.G(size=2, procs=2)], maxnodes=0),
                    families.scn("ABC", blk={"A": ["C"], "B": ["C"]}, flag="A", rc={"C": 2}, groups=[families.G(size=1, procs=1)], maxnodes=2)],
                   maxb=6, maxuser=3, max_replay=150 if q else 2000,
                   resub=[["--failed", "--missing"], ["--no-failed", "--missing", "--successful"], ["--failed", "--no-missing", "--successful"]])
    # ... and a second resubmission on the again completed submission (MaxResub = 2): three epochs, every interleaving
    ctx.impl_model("JadeImpl + two resubmissions",
                   [families.scn("AB", blk={"B": ["A"]}, rc={"A": 1}, groups=[families.G(size=1, procs=1)], maxnodes=0)]
                   + ([] if q else [families.scn("ABC", blk={"C": ["A"]}, flag="C", rc={"A": 1}, groups=[families.G(size=2, procs=2)], maxnodes=0)]),
                   maxb=6, maxuser=2, max_replay=80 if q else 1500, maxresub=2, timeout=3000,
                   resub=[["--failed", "--missing"], ["--no-failed", "--missing", "--successful"]])
    # ... and liveness: the resubmitted part completes again (fault-free: nothing is missing, so also with --no-missing)
    ctx.impl_liveness("JadeImpl liveness with resubmit-jobs",
                      [families.scn("AB", blk={"B": ["A"]}, rc={"A": 1}, groups=[families.G(size=1, procs=1)], maxnodes=0),
                       families.scn("ABC", blk={"C": ["A"]}, flag="C", rc={"A": 1}, groups=[families.G(size=2, procs=2)], maxnodes=0),
                       families.scn("ABC", blk={"A": ["C"], "B": ["C"]}, flag="A", rc={"C": 2}, groups=[families.G(size=1, procs=1)], maxnodes=2)],
                      maxb=6, maxuser=3, resub=[["--failed", "--missing"], ["--no-failed", "--missing", "--successful"],
                                                ["--failed", "--no-missing", "--successful"]])
    # K2 at the protocol level: with a batch rejected at sbatch (a missing job) and `--no-missing`, TLC must find the behaviour
    # in which a rerun job is handed over without the missing blocker -- and that behaviour, replayed into the code, must be
    # the known finding (if TLC no longer finds it, the model or the finding changed)
    k2scn = families.scn("ADC", blk={"C": ["A", "D"]}, groups=[families.G(size=1, procs=1)], maxnodes=0)
    try:
        ctx.impl_model("JadeImpl + sbatch fault + resubmit-jobs --no-missing (expected to fail: K2)", [k2scn], maxb=5, maxuser=4,
                       faults=("sbatch",), maxfaults=1, resub=[["--no-failed", "--no-missing", "--successful"]], max_replay=0)
        raise HarnessError("the protocol model no longer shows the K2 counterexample")
    except tlc.TlcError as e:
        ctx.models[-1]["ok"] = True
        ctx.models[-1]["expected_violation"] = "MonitorClean (HandoverCoversUnfinished / StartAfterBlockers): K2"
        if "HandoverCoversUnfinished" not in str(e) and "StartAfterBlockers" not in str(e):
            raise
        cp = cex_path(getattr(e, "out", str(e)))
        ctx.models[-1]["counterexample_replayed"] = bool(cp)
        if cp:
            tasks.append(("model_replay", (k2scn, cp, 5, [])))
    traces = run_tasks(tasks)
    ctx.judge(traces, "completed submissions (incl. missing jobs) resubmitted once or twice with random flag combinations, "
              "with and without report generation; resubmit-jobs on incomplete submissions")
    robs = resubmit_observations(traces)
    ctx.extra["resubmit_observations"] = len(robs)
    judge_obs(ctx, "Resubmit", "Resubmit_obs.cfg", robs,
              {"ResetExactlyRerun", "RerunWaitsForRerunBlockers", "ResultsPrunedExactly", "CountersAfterReset"},
              "what resubmit-jobs writes before it submits, against Resubmit.tla")
    return ctx.finish(rule="Resubmit.tla: the selection / closure / blocker / reset computation checked by TLC for every completed "
                           "submission of <= 3 jobs, and compared with what the real command wrote in every run below; "
                           "random DAGs run to completion (40% with a batch failing at sbatch so that jobs are missing), then "
                           "resubmit-jobs with one of 8 flag combinations, once or twice, report generation on in 35% of the runs; "
                           "resubmit-jobs on an incomplete submission: nobody submitter / a compute node holds the role (run from "
                           "another host and from the same host)")


def _obs_task(task):
    kind, args = task
    try:
        return getattr(funcs, kind)(*args)
    except Exception as e:
        if type(e).__name__ == "Unobservable":
            return {"_unobservable": str(e)}
        return {"_driver_error": f"{type(e).__name__}: {e}", "tb": traceback.format_exc(), "task": [kind, str(args)[:300]]}


def run_obs(tasks):
    """Execute the real code on enumerated inputs (function-level properties) in the worker pool."""
    ctxmp = multiprocessing.get_context("fork")
    with ctxmp.Pool(NCPU, initializer=_worker_init) as pool:
        res = pool.map(_obs_task, tasks, chunksize=8)
    errs = [r for r in res if isinstance(r, dict) and "_driver_error" in r]
    if errs:
        raise HarnessError("observation driver failed: " + errs[0]["_driver_error"] + "\n" + errs[0]["tb"])
    return res


def judge_obs(ctx, module, cfg, obs, clauses, what, tasks=None, only=False):
    """TLC validates the recorded (input, output) observations against the specification's operators.
    only=True: the module judges clauses of several properties; this check counts its own (`clauses`); a DRIFT verdict
    (the model predicts other events than the code produced) is a conformance note, never a violation."""
    verdicts, st = funcs.validate(module, cfg, obs, shards=NCPU)
    ctx.tlc_states += st["tlc_states"]
    ctx.clauses.setdefault(ctx.prop, set()).update(clauses)
    for o, v in zip(obs, verdicts):
        ctx.traces += 1
        ctx.distinct.add(hashlib.sha1(json.dumps(o, sort_keys=True).encode()).hexdigest())
        for c in clauses:
            ctx.cnt[c] = ctx.cnt.get(c, 0) + 1
        for c in v:
            if only and c == "DRIFT":
                conf = ctx.extra.setdefault("observation_conformance", {"drift": 0})
                conf["drift"] += 1
                if conf["drift"] <= 10:
                    ctx.notes.append(f"model-drift ({module}): the model predicts other events than observed for " + json.dumps(o)[:300])
                continue
            if only and c not in clauses:
                continue
            k = None
            for kf in ctx.known:
                if kf["property"] == ctx.prop and c in kf["clauses"] and all(o.get(f) == val for f, val in kf.get("obs_has", {}).items()) \
                        and kf.get("obs_has") is not None:
                    k = kf
            if k:
                ctx.known_hits.append((k["id"], c))
                continue
            d = os.path.join(VERIF, "out", "replays")
            os.makedirs(d, exist_ok=True)
            h = hashlib.sha1(json.dumps(o, sort_keys=True).encode()).hexdigest()[:10]
            path = os.path.join(d, f"{ctx.prop}_{c}_{h}.json")
            with open(path, "w") as f:
                json.dump({"property": ctx.prop, "clause": c, "observation": o, "module": module, "cfg": cfg,
                           "task": (list(tasks[o["id"]]) if tasks else None)}, f)
            ctx.viol.append((c, path))
    if len(ctx.samples) < 4 and obs:
        ctx.samples.append({"kind": "observation of the real code (" + what + ")", "observation": obs[len(obs) // 2]})


def check_C20(ctx):
    q = ctx.tier == "quick"
    ctx.model("Reports statistics machine (all sample sequences <=5 over 0..3)", "Reports", "Reports_machine.cfg", workers=4)
    rng = random.Random(ctx.seed)
    tasks = []
    for seq in funcs.stats_inputs(4 if q else 5, 3):
        tasks.append(("run_stats", (seq, False)))
        tasks.append(("run_stats", (seq, True)))
    tasks += [("run_events", (f,)) for f in funcs.event_inputs(rng, 300 if q else 4000)]
    tasks += [("run_tables", (f,)) for f in funcs.table_inputs(rng, 200 if q else 3000)]
    obs = run_obs(tasks)
    # per-process statistics when the processes are seen in different subsets of the node's samples
    ptasks = [("run_pstats", x) for x in funcs.pstats_inputs(3 if q else 5, 3)]
    plists = run_obs(ptasks)
    for t, l in zip(ptasks, plists):
        for o in l:
            obs.append(o)
            tasks.append(t)
    judge_obs(ctx, "Reports", "Reports_obs.cfg", obs,
              {"TrueMinimum", "TrueMaximum", "TrueMean", "SampleCount", "EveryNameConsolidated", "EventsLosslessOrdered",
               "ConsolidationIdempotent", "StatTablesLossless"}, "resource statistics / event consolidation", tasks=tasks)
    # the four-way tally of results.json, on whole submissions (incl. missing and canceled jobs)
    kw = dict(n_min=2, n_max=6, groups_max=1)
    trs = run_tasks([("random_nodefaults", (s, kw)) for s in seeds(ctx, 120 if q else 1500, 91)])
    mine = set(ctx.clauses.get("C20", set())) | {"TallyPartition", "EventsLosslessInSummary"}
    ctx.judge(trs, "random submissions with failing, canceled and missing jobs (results.json tallies)", clauses=mine)
    # events of whole submissions with report generation and periodic resource monitoring, across resubmissions: what the
    # consolidated summary shows at the end against every line of the *events.log files
    etasks = []
    for i, s in enumerate(seeds(ctx, 8 if q else 60, 92)):
        sc = families.scn("ABC", blk={"C": ["A"]} if i % 2 else {}, rc={"B": 1} if i % 3 == 0 else {},
                          groups=[families.G(size=1 + i % 2, procs=2)], maxnodes=0, reports=True, monitor="periodic",
                          jobevents=True)      # the jobs log structured events of their own while they run
        etasks.append(("resubmit_scn", (sc, s, [["--successful"] if i % 2 else ["--failed", "--missing"]])))
    ctx.judge(run_tasks(etasks), "submissions with reports and periodic monitoring, resubmitted: consolidated events vs logs",
              clauses=mine)
    return ctx.finish(rule="all sample sequences of length <=4 (thorough 5) over {0,1,2,3} fed to the real ResourceMonitorAggregator "
                           "(node and per-process statistics, sampler stubbed); random multisets of <=5 events over 2 names, 3 "
                           "timestamps, <=3 files written with the real StructuredLogEvent and consolidated twice with the real "
                           "EventsSummary; the same for resource-statistics events (cpu_stats, process_stats with 1-3 processes per sample), "
                           "consolidated into tables and read back with get_dataframe; results.json tallies of whole submissions; the consolidated event summary against the event "
                           "logs at the end of resubmitted submissions (reports on, periodic monitoring); every observation validated by TLC against "
                           "Reports.tla / JadeMonitor.tla", exhaustive=False)


def check_C18(ctx):
    q = ctx.tier == "quick"
    ctx.model("Slurm retry machine (retries 0..6, all outcome sequences)", "Slurm", "Slurm_machine.cfg", workers=4)
    rng = random.Random(ctx.seed)
    tasks = [("run_retry", x) for x in funcs.retry_inputs(4 if q else 6)]
    tasks += [("run_script", (f,)) for f in funcs.script_inputs()]
    tasks += [("run_script", (f, True)) for k, f in enumerate(funcs.script_inputs()) if k % (4 if q else 1) == 0]
    tasks += [("run_squeue", x) for x in funcs.squeue_inputs(rng, 300 if q else 5000)]
    tasks += [("run_squeuecmd", x) for x in funcs.squeuecmd_inputs(rng, 200 if q else 4000)]
    tasks += [("run_squeuemulti", x) for x in funcs.squeuemulti_inputs(rng, 150 if q else 3000)]
    tasks += [("run_submit", (c,)) for c in funcs.SUBMIT]
    obs = run_obs(tasks)
    judge_obs(ctx, "Slurm", "Slurm_obs.cfg", obs,
              {"RetryBound", "StopsAtFirstSuccessOrPermanent", "ResultIsLastAttempt", "ScriptDirectivesExact", "ScriptDirectiveOnce",
               "ScriptRunsRunScript", "ActiveNeverFinished", "StatusRowsParsed", "SubmitResponseParsed"},
              "retry loop / submission script / status decision / submit response", tasks=tasks)
    # "never treated as finished" at the level of whole submissions: when a round ends, every batch the scheduler still holds
    # (pending or running) is among the recorded HPC ids -- random submissions with a node limit, unmapped display states and
    # user rounds at any moment
    kw = dict(n_min=3, n_max=7, groups_max=2, eager=0.1, squeue_odd=0.5)
    trs = run_tasks([("random_hpc", (s, kw)) for s in seeds(ctx, 150 if q else 2500, 18)])
    ctx.judge(trs, "random HPC submissions: active batches stay tracked", clauses=set(ctx.clauses.get("C18", set())) | {"ActiveBatchesTracked"})
    return ctx.finish(rule="all 2^9 set/unset combinations of the optional SLURM fields (real create_submission_script); every SLURM "
                           "state for the queried id alone and among other rows in 4 whitespace renderings plus random outputs of "
                           "<=3 rows (real _get_statuses_from_output + AsyncHpcSubmitter.is_complete), and the whole status path (real "
                           "SlurmManager.check_statuses / check_status) against a scheduler that interprets the squeue command "
                           "line incl. its -t/-j/-n filters; 7 classes of sbatch answers "
                           "(real SlurmManager.submit); all outcome sequences of a retried command for 0..4 (thorough 0..6) retries "
                           "with and without a listed permanent error (real run_command with a scripted process); validated by TLC "
                           "against Slurm.tla", exhaustive=True)


def check_C19(ctx):
    q = ctx.tier == "quick"
    ctx.model("Launch tokenizer (all strings <=5 over 9 symbols)", "Launch", "Launch_machine.cfg", workers=8)
    rng = random.Random(ctx.seed)
    tasks = [("run_launch", x) for x in funcs.launch_inputs(5 if q else 6, rng, sample_last=3000 if q else 40000)]
    obs = run_obs(tasks)
    ctx.extra["commands_out_of_scope"] = sum(1 for o in obs if not o["cmd"])
    judge_obs(ctx, "Launch", "Launch_obs.cfg", obs,
              {"WellFormedCommandLaunches", "ArgvIsShellSplit", "JadeArgumentsAppended", "LaunchEnvironment", "OwnStdioFiles",
               "ResultCarriesRealExitStatus"}, "job launch", tasks=tasks)
    return ctx.finish(rule="every command string of length <=4 and a sample of length 5 (thorough: all of length 5, sample of 6) over "
                           "{a, c, space, tab, ', \", backslash, $, #}, crossed by rotation with 4 legal job names (letters, digits, _ . -), the "
                           "4 append_* combinations and exit codes incl. 0,1,2,127,128,255 and k*7 mod 256; executed on the real "
                           "GenericCommandParameters / generate_command / AsyncCliCommand.run+_complete / ResultsAggregator with "
                           "subprocess.Popen captured; validated by TLC against Launch.tla (Split = POSIX word splitting); ill-formed "
                           "commands (Split.ok = FALSE) are outside the property")


def check_C17(ctx):
    q = ctx.tier == "quick"
    rng = random.Random(ctx.seed)
    cfgs = funcs.config_inputs(rng, 150 if q else 2500)
    tasks = [("run_config", (c,)) for c in cfgs]
    obs = run_obs(tasks)
    ctx.extra["valid_bases"] = sum(1 for o in obs if o["accepted"])
    judge_obs(ctx, "ConfigCheck", "ConfigCheck_obs.cfg", obs,
              {"ValidAccepted", "InvalidRejected", "RejectedBeforeHandOver", "RoundTripLossless", "ValidDumpsAndLoads"},
              "configuration round trip and validation", tasks=tasks)
    return ctx.finish(level="exploration",
                      rule="random abstract configurations over the public job and group models (1-3 jobs, explicit or automatic "
                           "names, string or integer blockers, optional fields set/unset, lifecycle commands, 1-3 groups) and, for "
                           "each, every single injected invalidity (nonexistent blocker, duplicate job name, unknown group, group-"
                           "wide max_nodes / poll_interval / hpc_type mismatch, duplicate group name, estimate above the walltime); "
                           "built with the real models, dumped, loaded with create_config_from_file, submitted through "
                           "JobSubmitter.run_submit_jobs with a counting sbatch stub; verdicts decided by TLC with Valid(cfg) of "
                           "ConfigCheck.tla")


def pipeline_clauses():
    txt = open(os.path.join(VERIF, "spec", "PipelineMonitor.tla")).read()
    body = txt[txt.index("C15Clauses =="):]
    return set(re.findall(r'"([A-Za-z0-9_]+)"', body[:body.index("}")]))


def pipeline_observations(traces):
    """Recorded pipeline runs without the batches' activity: the manager-level events, and what each stage ended with."""
    obs = []
    for tr in traces:
        evs = run_api.encode_pipeline(tr, "0")[0]["ev"]
        n = tr["scn"]["n"]
        keep, seen_complete, miss = [], set(), {}
        faulty = False
        for e in evs:
            if e["e"] in ("pipeline", "create", "autoconfig"):
                keep.append({k: v for k, v in e.items() if k != "jobs"})
            elif e["e"] == "summary":
                if e["k"] not in miss:
                    miss[e["k"]] = e["nmissing"]
                    keep.append(e)
            elif e["e"] == "status" and e["complete"] and e["k"] not in seen_complete:
                seen_complete.add(e["k"])
                keep.append(e)
            elif e["e"] == "fault":
                faulty = True
        if faulty:
            continue
        ps = tr["pscn"]
        last = [e for e in keep if e["e"] == "pipeline"]
        done = bool(last and last[-1]["complete"])
        stopped = bool(ps.get("autofail")) and any(e["e"] == "autoconfig" and e["rc"] != 0 for e in keep)
        obs.append({"kind": "pipeline", "n": n, "auto": bool(ps.get("auto")), "fail": int(ps.get("autofail") or 0),
                    "miss": [miss.get(k, 0) for k in range(1, n + 1)], "ev": keep, "cut": not (done or stopped),
                    "driver": tr.get("driver")})
    return obs


def check_C15(ctx):
    q = ctx.tier == "quick"
    ctx.model("Pipeline manager (all shapes <= 4 stages x outcomes x auto-config failures)", "Pipeline", "Pipeline_machine.cfg", workers=4)
    tasks = [("pipeline", (s, None)) for s in seeds(ctx, 160 if q else 3000, 81)]
    tasks += [("pipeline", (s, True)) for s in seeds(ctx, 40 if q else 500, 82)]
    traces = run_tasks(tasks)
    ctx.judge(traces, "pipelines of 1-4 stages (1-2 jobs each), local and HPC, random schedules, per-stage recovery",
              module="PipeTrace", encoder=run_api.encode_pipeline, clauses=pipeline_clauses())
    pobs = pipeline_observations(traces)
    ctx.extra["pipeline_observations"] = {"compared": len(pobs), "cut_short": sum(1 for o in pobs if o["cut"])}
    judge_obs(ctx, "Pipeline", "Pipeline_obs.cfg", pobs, {"PipelineFollowsManager"},
              "manager-level events of the recorded runs against Pipeline!Expected")
    ctx.samples = [{"kind": "pipeline run", "pipeline": traces[0]["pscn"],
                    "events": [e for e in run_api.encode_pipeline(traces[0], "0")[0]["ev"] if e["e"] != "activity"][:40]}]
    return ctx.finish(rule="random pipelines: 1-4 stages with 1-2 jobs each (dependencies, failing jobs, a batch failing at sbatch so "
                           "that a stage returns 1), batch size 1-2, max nodes, local and HPC mode, random schedules of the stages' "
                           "batches and submitters, try-submit-jobs recovery on the current stage; half of the pipelines built from "
                           "auto-config commands (one of which may fail); validated by TLC against PipelineMonitor.tla; the "
                           "manager-level events of every run compared with Pipeline!Expected (Pipeline.tla: the manager as a "
                           "deterministic function of the stages' outcomes, checked against the monitor for all shapes <= 4 stages)")


def drv_local(seed, gen_kw):
    rng = random.Random(seed)
    scn = scenario.gen(rng, **gen_kw)
    scn["mode"] = "local"
    for g in scn["groups"]:
        g["tb"] = False
        g["size"] = max(1, g["size"])
    scn["groups"] = scn["groups"][:1]
    scn["grp"] = {j: scn["groups"][0]["name"] for j in scn["jobs"]}
    tr = run.run_hpc(scn, seed)
    tr["driver"] = ["scn", scn, seed]
    return tr


def local_extra(ctx):
    """Local mode: the same DAGs run by one process through the node-level queue (reference outcome, order, one start)"""
    q = ctx.tier == "quick"
    kw = dict(n_min=2, n_max=7, groups_max=1, allow_time=False)
    ctx.judge(run_tasks([("local", (s, kw)) for s in seeds(ctx, 120 if q else 2000, 44)]), "random DAGs in local mode")


CHECKS = {"C17": check_C17, "C19": check_C19, "C18": check_C18, "C20": check_C20, "C15": check_C15, "C13": check_C13, "C16": check_C16, "C14": check_C14, "C01": check_C01, "C07": check_C07, "C08": check_C08, "C10": check_C10, "C11": check_C11, "C12": check_C12}
DRIVERS["local"] = drv_local
CHECKS["C03"] = make_protocol_check(10, extra=local_extra)


def liveness_extra(ctx):
    """TLC liveness on JadeImpl: FairSpec => eventually complete (and its violation without the user's recovery)"""
    q = ctx.tier == "quick"
    ctx.impl_liveness("JadeImpl liveness", families.protocol_quick() if q else families.protocol_thorough(),
                      maxb=3 if q else 4, maxuser=4 if q else 5)
    # the user runs try-submit-jobs at any moment, concurrently with the nodes' own rounds (not only at quiescence)
    ctx.impl_model("JadeImpl + user rounds at any moment", [families.scn("AB", groups=[families.G(size=1, procs=1)], maxnodes=0)],
                   maxb=2, maxuser=1 if q else 2, eager=True, max_replay=150 if q else 1500, timeout=3000)
    bl, wt = completion_window_tasks(ctx)
    ctx.judge(bl + run_tasks(wt), "try-submit-jobs started at every step of submissions that end with report generation")
    # progress also after a resubmission: the rerun part completes, nobody waits for a job that is already done
    ctx.judge(run_tasks(small_resubmit_tasks(ctx, 160 if q else 3000)), "resubmitted 3-job submissions (progress per epoch)")


def completion_window_tasks(ctx):
    """The completion work with report generation enabled (the role is held across summary, teardown, the report commands and
    the flag): a try-submit-jobs from another host started at every scheduling step of the base schedule."""
    q = ctx.tier == "quick"
    bases = [families.scn("AB", groups=[families.G(size=1, procs=1)], maxnodes=0, reports=True),
             families.scn("ABC", rc={"B": 1}, groups=[families.G(size=2, procs=2)], maxnodes=0, reports=True, hooks={"setup": False, "teardown": True, "nsetup": False, "nteardown": False})]
    if not q:
        bases.append(families.scn("ABC", blk={"C": ["A"]}, flag="C", rc={"A": 1}, groups=[families.G(size=1, procs=1)], maxnodes=2,
                                  reports=True))
    base_tasks = [("fault", (b, ctx.seed * 43 + i, None, False)) for i, b in enumerate(bases)]
    baselines = run_tasks(base_tasks)
    tasks = []
    for (kind_, (scn, seed, _, fm)), btr in zip(base_tasks, baselines):
        for t in range(1, len(btr["moves"]) + 1):
            for j in ((0, 2) if q else (0, 1, 2, 3, 5)):
                plan = [{"kind": "usertry", "t": t, "host": "user" if (t + j) % 3 else "login"},
                        {"kind": "delay", "label": "try-submit-jobs", "b": -1, "j": j, "d": 25}]
                tasks.append(("fault", (scn, seed, plan, False)))
    ctx.extra["completion_window_points_enumerated"] = len(tasks)
    return baselines, tasks


NODE_CLAUSES = {"C02": {"StartAfterBlockers"}, "C04": {"CanceledNeverRuns", "CanceledOnlyIf", "CanceledIff", "NotCanceledRuns"},
                "C06": {"ProcsBound"}, "C01": {"OneLaunch"}}


def node_queue_suite(ctx):
    """NodeQueue.tla: one compute node at the grain of one iteration of _check_completions -- TLC explores every input of
    the small space and every placement of the job exits (invariants, no dead end, termination under fairness); the same
    space is executed on the real JobQueue + AsyncCliCommand along every exit schedule and each run is compared with
    NodeQueue!Run and judged by the node-level clauses."""
    q = ctx.tier == "quick"
    from harness import nodequeue
    from concurrent.futures import ThreadPoolExecutor
    models = [("NodeQueue machine (all inputs <= 3 jobs, all exit placements)", "NodeQueue_machine.cfg"),
              ("NodeQueue termination under fairness (all inputs <= 3 jobs)", "NodeQueue_live.cfg")]
    if not q:
        models.append(("NodeQueue machine (4 jobs, <= 1 failing, process limits 1/2/4)", "NodeQueue_machine4.cfg"))
    inputs = nodequeue.inputs_small()
    if not q:
        rng = random.Random(ctx.seed + 5)
        inputs += rng.sample(list(nodequeue.all_inputs(4, 1, [1, 2, 4])), 6000)
    # can the queue's iterations be observed on this tree at all?  (The driver listens to debug records of job_queue.py and
    # wraps private methods; after a refactoring that removes them nothing is concluded from this suite -- no alarm, no hang.)
    probe = run_obs([("explore_nodequeue", (i,)) for i in inputs[:40:13]])
    if any(isinstance(r, dict) and "_unobservable" in r for r in probe):
        why = next(r["_unobservable"] for r in probe if isinstance(r, dict) and "_unobservable" in r)
        ctx.notes.append("node-queue suite skipped: iterations of JobQueue._check_completions are not observable on this tree (" + why + ")")
        ctx.extra["node_queue"] = {"skipped": why}
        for n, c in models:
            ctx.model(n, "NodeQueue", c, 4, None, 3000)
        return
    with ThreadPoolExecutor(max_workers=len(models)) as ex:      # TLC explores while the real queue is being driven
        futs = [ex.submit(ctx.model, n, "NodeQueue", c, 4, None, 3000) for n, c in models]
        lists = run_obs([("explore_nodequeue", (i,)) for i in inputs])
        # larger, cancellation-heavy batches (5-9 jobs: chains and fans of flagged dependents below failing jobs) under
        # random exit schedules
        lists += run_obs([("random_nodequeue", (s, 6)) for s in seeds(ctx, 400 if q else 6000, 33)])
        for f in futs:
            f.result()
    obs, tasks = [], []
    for l in lists:
        for o in l:
            obs.append(o)
            tasks.append(("run_nodequeue", (o["in"], o["sched"])))
    ctx.extra["node_queue"] = {"inputs": len(inputs), "schedules": len(obs), "ended": sum(1 for o in obs if o["end"] == "done"),
                               "stuck_or_error": sum(1 for o in obs if o["end"] != "done")}
    judge_obs(ctx, "NodeQueue", "NodeQueue_obs.cfg", obs, NODE_CLAUSES[ctx.prop],
              "one node: JobQueue + AsyncCliCommand along every exit schedule", tasks=tasks, only=True)


def cancel_shapes_extra(ctx):
    """Every 3-job DAG x cancel flags x one failing job x placement (one node batch / one batch per job / two per batch)"""
    q = ctx.tier == "quick"
    space = []
    for blk in all_small_dags(3):
        for fail in "ABC":
            if not any(fail in blk.get(j, []) for j in "ABC"):
                continue            # the failing job has no dependent: nothing to cancel
            for fmask in range(8):
                for gi, g in enumerate([families.G(size=3, tryadd=True, procs=1), families.G(size=3, tryadd=True, procs=3),
                                        families.G(size=1), families.G(size=2, tryadd=True, procs=2)]):
                    space.append((blk, fail, fmask, gi, g))
    ctx.extra["cancel_shapes_space"] = len(space)
    rng = random.Random(ctx.seed + 41)
    tasks = []
    for i, (blk, fail, fmask, gi, g) in enumerate(space):
        scn = families.scn("ABC", blk=blk, flag="".join(j for k, j in enumerate("ABC") if fmask >> k & 1), rc={fail: 1 + i % 2},
                           groups=[g], maxnodes=(0, 1, 2)[i % 3])
        for s in range(1 if q else 4):
            tasks.append(("scn", (scn, ctx.seed + 7 * i + s)))
    ctx.judge(run_tasks(tasks), "cancellation shapes: all 3-job DAGs x flags x failing job x placement")
    kwl = dict(n_min=3, n_max=7, groups_max=1, allow_time=False)
    ctx.judge(run_tasks([("local", (s, kwl)) for s in seeds(ctx, 100 if q else 1500, 46)]), "random DAGs in local mode")
    # cancellation also holds for jobs that are rerun: the 3-job space of DAGs x exit codes x flags x resubmit flags
    ctx.judge(run_tasks(small_resubmit_tasks(ctx, 300 if q else 4000)), "resubmitted 3-job submissions (cancellation per epoch)")
    # a flagged job with two blockers, rerun with other exit codes than the first time: every such 3-job DAG x which job fails
    # first x which job fails in the rerun
    rt = []
    for blk in all_small_dags(3):
        two = [j for j in "ABC" if len(blk.get(j, [])) == 2]
        if not two:
            continue
        for fl in (two[0], "ABC"):
            for f0 in "ABC":
                for f1 in "ABC":
                    for size in (1, 3):
                        sc = families.scn("ABC", blk=blk, flag=fl, rc={f0: 1}, groups=[families.G(size=size, tryadd=True, procs=2)],
                                          maxnodes=0, rc_by_epoch={"1": {j: int(j == f1) for j in "ABC"}})
                        rt.append(("resubmit_scn", (sc, ctx.seed + len(rt), [["--failed", "--missing"]])))
    ctx.judge(run_tasks(rt), "flagged jobs with two blockers rerun with other exit codes")
    # the node-level queue of the model on the shapes where a flagged and an unflagged dependent share a failed blocker
    node_queue_suite(ctx)
    ctx.impl_model("JadeImpl cancellation on the node and by a submitter",
                   [families.scn("ABC", blk={"B": ["A"], "C": ["A"]}, flag="B", rc={"A": 1},
                                 groups=[families.G(size=3, tryadd=True, procs=1)], maxnodes=0),
                    families.scn("ABC", blk={"B": ["A"], "C": ["A", "B"]}, flag="C", rc={"A": 1},
                                 groups=[families.G(size=2, tryadd=True, procs=2)], maxnodes=2)],
                   maxb=3, maxuser=3, max_replay=60 if q else 400)


CHECKS["C04"] = make_protocol_check(11, extra=cancel_shapes_extra)
CHECKS["C05"] = make_protocol_check(12, extra=liveness_extra)
def order_extra(ctx):
    """Histories with resubmissions and cancellations; runs in which the scheduler answers status queries with an empty listing"""
    histories_extra(ctx)
    q = ctx.tier == "quick"
    # dependency order does not rest on what the scheduler says: a status query answered "no jobs" (exit 0, as during a
    # controller restart) while batches are active must not let a blocked job start
    tasks = [("random_hpc", (s, dict(n_min=3, n_max=6, groups_max=2, squeue_lies=1.0))) for s in seeds(ctx, 160 if q else 3000, 73)]
    for skip in range(0, 3):
        for n in (1, 2):
            for sd in range(12 if q else 60):
                sc = families.scn("AXB", blk={"B": ["A"]}, groups=[families.G(size=1)], maxnodes=0, squeue_empty=n,
                                  squeue_empty_skip=skip, faults=True)
                tasks.append(("scn", (sc, ctx.seed + sd)))
    ctx.judge(run_tasks(tasks), "status queries answered with an empty listing while batches are active")
    kwl = dict(n_min=2, n_max=7, groups_max=1, allow_time=False)
    ctx.judge(run_tasks([("local", (s, kwl)) for s in seeds(ctx, 100 if q else 1500, 45)]), "random DAGs in local mode")
    node_queue_suite(ctx)


CHECKS["C02"] = make_protocol_check(14, extra=order_extra)     # dependency order also when jobs are rerun
CHECKS["C09"] = make_protocol_check(15, extra=histories_extra)
# C06 also under failing scheduler queries: the limit is stated for every instant, not only for fault-free runs
def limits_extra(ctx):
    """NodeQueue.tla machine + every exit schedule on the real JobQueue; resubmit-jobs issued the moment the submission is complete"""
    q = ctx.tier == "quick"
    node_queue_suite(ctx)
    # the user resubmits as soon as the completion flag is set: the completing round runs inside the last batch, which is
    # still RUNNING on the scheduler then -- the limit counts it
    tasks = []
    for i, s in enumerate(seeds(ctx, 60 if q else 800, 47)):
        sc = families.scn("ABCD"[:3 + i % 2], rc={"A": 1, "B": 1 + i % 2}, groups=[families.G(size=1, procs=1)], maxnodes=1 + i % 2)
        plan = [{"kind": "usertry", "when": "complete", "host": "login", "argv": ["resubmit-jobs", "{out}", "--failed"]}]
        if i % 3:
            plan.append({"kind": "hold", "label": "run-jobs", "while": "resubmit-jobs"})      # the old node lingers
        tasks.append(("fault", (sc, s, plan, False)))
    ctx.judge(run_tasks(tasks), "resubmit-jobs issued the moment the submission is complete (old batches still on the scheduler)")
    # rounds aborted after the scheduler accepted some of their batches (nothing persisted): the limit still counts them
    bl, ft = aborted_round_tasks(ctx)
    ctx.judge(bl + run_tasks(ft), "rounds aborted by a failed write of a batch file, then the other nodes' and the user's rounds")


CHECKS["C06"] = make_protocol_check(16, gen_kw=dict(squeue_faults=0.4, n_min=3), extra=limits_extra)


def main(argv=None):
    ap = argparse.ArgumentParser()
    ap.add_argument("prop")
    ap.add_argument("--tier", default=os.environ.get("VERIF_TIER", "quick"), choices=["quick", "thorough"])
    ap.add_argument("--seed", type=int, default=int(os.environ.get("VERIF_SEED", "1")))
    ap.add_argument("file", nargs="?")
    a = ap.parse_args(argv)
    try:
        if a.prop == "replay":
            from harness import replay
            return replay.main(a.file)
        if a.prop not in CHECKS:
            print(f"unknown property {a.prop}", file=sys.stderr)
            return 2
        ctx = Ctx(a.prop, a.tier, a.seed)
        return CHECKS[a.prop](ctx)
    except (HarnessError, tlc.TlcError) as e:
        print("MACHINERY-FAILURE", type(e).__name__, str(e)[:4000], file=sys.stderr)
        return 2
    except Exception:
        traceback.print_exc()
        return 2


if __name__ == "__main__":
    sys.exit(main())
