"""API driver executed inside a virtual process: one handle (Cluster object) running a script of operations."""
import os
import sys

from jade.jobs.cluster import Cluster

# "op!k": the process is killed inside the operation after k of its file writes (version file / data file of the
# configuration, version file / data file of the job status -- one logical write each; a data file write starts with
# the rename to its backup name).  The hook asks the controller for the kill when write k+1 is about to begin.
_CRASH = {"left": None, "ch": None, "out": None}
_VERSION_FILES = ("config_version.txt", "job_status_version.txt")
_DATA_FILES = ("cluster_config.json", "job_status.json")


def _crash_hook(event, args):
    if _CRASH["left"] is None:
        return
    begins = False
    if event == "open":
        p, mode, flags = args
        if isinstance(p, (str, bytes, os.PathLike)) and flags is not None and \
                flags & (os.O_WRONLY | os.O_RDWR | os.O_CREAT | os.O_TRUNC | os.O_APPEND):
            p = os.fspath(p)
            p = p.decode() if isinstance(p, bytes) else p
            begins = os.path.dirname(p) == _CRASH["out"] and os.path.basename(p) in _VERSION_FILES
    elif event == "os.rename":
        p = os.fspath(args[0])
        p = p.decode() if isinstance(p, bytes) else p
        begins = os.path.dirname(p) == _CRASH["out"] and os.path.basename(p) in _DATA_FILES
    if not begins:
        return
    if _CRASH["left"] == 0:
        _CRASH["left"] = None
        _CRASH["ch"].call(op="api", name="crash_here")      # never returns: the controller kills this process
        os._exit(137)
    _CRASH["left"] -= 1


def creator(ch, out, cfgfile):
    from jade.jobs.job_configuration_factory import create_config_from_file
    cfg = create_config_from_file(cfgfile)
    cluster = Cluster.create(out, cfg)
    cluster.demote_from_submitter()
    return 0


def handle(ch, out, ops, cfgfile=None):
    cluster = None
    promoted = False
    _CRASH["ch"], _CRASH["out"] = ch, os.path.abspath(out)
    sys.addaudithook(_crash_hook)
    for op in ops:
        crash = None
        if "!" in op:
            op, k = op.split("!")
            crash = int(k)
        if op == "wait":
            # two hours pass by this process' clock, measured from the last write of the configuration file
            import harness.boundary as hb
            try:
                hb.VT[0] = os.path.getmtime(os.path.join(out, "cluster_config.json")) + 7200.0
            except OSError:
                pass
            continue
        if cluster is None and op not in ("load", "loadp", "recreate"):
            break          # the load failed: there is no Cluster object to operate on
        if op == "demote" and not promoted:
            continue       # callers demote only what they were promoted to
        hc = cluster.config.version if cluster is not None else -1
        hj = cluster.job_status.version if cluster is not None and cluster.job_status is not None else -1
        ch.call(op="api", name="cop_begin", cop=op, hcver=hc, hjver=hj, loaded=cluster is not None)
        exc, ok = "", False
        _CRASH["left"] = crash
        try:
            if op == "load":
                cluster, _ = Cluster.deserialize(out, deserialize_jobs=True)
            elif op == "loadp":
                cluster, ok = Cluster.deserialize(out, try_promote_to_submitter=True, deserialize_jobs=True)
            elif op == "recreate":
                # jade submit-jobs --force on an existing output directory (cli/submit_jobs.py): rmtree, then a new submission
                import shutil
                from jade.jobs.job_configuration_factory import create_config_from_file
                import time
                time.sleep(1)          # a scheduling point of the harness: the command starts when the schedule says so
                shutil.rmtree(out)
                ch.call(op="api", name="recreated")
                os.makedirs(out)
                cluster = Cluster.create(out, create_config_from_file(cfgfile))
                ok = True
            elif op == "promote":
                ok = cluster.promote_to_submitter()
            elif op == "demote":
                cluster.demote_from_submitter()
                promoted = False
            elif op == "cancel":
                cluster.mark_canceled()
            elif op == "complete":
                cluster.mark_complete()
            elif op == "jsonly":
                cluster.job_status.batch_index += 1
                cluster.serialize_jobs("verif")
            elif op == "update":
                dummy = next(cluster.iter_jobs())
                cluster.update_job_status([], [], [dummy], set(), list(cluster.job_status.hpc_job_ids),
                                          cluster.job_status.batch_index + 1)
            else:
                raise RuntimeError(op)
            if ok:
                promoted = True
        except BaseException as e:  # noqa
            exc = type(e).__name__
        _CRASH["left"] = None
        ch.call(op="api", name="cop_end", exc=exc, ok=bool(ok))
    return 0


def complete_ids(ch, out):
    """What JobRunner._complete_hpc_job does at the end of a batch (on interface types where it runs): take the submitter
    role, remove the ended batches' HPC job ids from the job status, give the role back."""
    cluster, promoted = Cluster.deserialize(out, try_promote_to_submitter=True, deserialize_jobs=True)
    if not promoted:
        return 0
    try:
        for job_id in list(cluster.job_status.hpc_job_ids):
            cluster.complete_hpc_job_id(job_id)
    finally:
        cluster.demote_from_submitter()
    return 0
