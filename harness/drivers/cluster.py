"""API driver executed inside a virtual process: one handle (Cluster object) running a script of operations."""
from jade.jobs.cluster import Cluster


def creator(ch, out, cfgfile):
    from jade.jobs.job_configuration_factory import create_config_from_file
    cfg = create_config_from_file(cfgfile)
    cluster = Cluster.create(out, cfg)
    cluster.demote_from_submitter()
    return 0


def handle(ch, out, ops):
    cluster = None
    promoted = False
    for op in ops:
        if cluster is None and op not in ("load", "loadp"):
            break          # the load failed: there is no Cluster object to operate on
        if op == "demote" and not promoted:
            continue       # callers demote only what they were promoted to
        hc = cluster.config.version if cluster is not None else -1
        hj = cluster.job_status.version if cluster is not None and cluster.job_status is not None else -1
        ch.call(op="api", name="cop_begin", cop=op, hcver=hc, hjver=hj, loaded=cluster is not None)
        exc, ok = "", False
        try:
            if op == "load":
                cluster, _ = Cluster.deserialize(out, deserialize_jobs=True)
            elif op == "loadp":
                cluster, ok = Cluster.deserialize(out, try_promote_to_submitter=True, deserialize_jobs=True)
            elif op == "promote":
                ok = cluster.promote_to_submitter()
            elif op == "demote":
                cluster.demote_from_submitter()
                promoted = False
            elif op == "cancel":
                cluster.mark_canceled()
            elif op == "jsonly":
                cluster.job_status.batch_index += 1
                cluster.serialize_jobs("verif")
            elif op == "update":
                dummy = next(cluster.iter_jobs())
                cluster.update_job_status([], [], [dummy], set(), list(cluster.job_status.hpc_job_ids),
                                          cluster.job_status.batch_index + 1)
            else:
                raise RuntimeError(op)
            if ok:
                promoted = True
        except BaseException as e:  # noqa
            exc = type(e).__name__
        ch.call(op="api", name="cop_end", exc=exc, ok=bool(ok))
    return 0
