"""API drivers executed inside virtual processes: the real ResultsAggregator."""
from jade.jobs.results_aggregator import ResultsAggregator
from jade.result import Result


def _result(row):
    return Result(row[0], int(row[1]), row[2], float(row[3]), completion_time=float(row[4]),
                  hpc_job_id=(None if row[5] == "None" else row[5]))


def creator(ch, out):
    ResultsAggregator.create(out)
    return 0


def appender(ch, out, file, rows):
    for row in rows:
        ResultsAggregator.append(out, _result(row), batch_id=file)
    return 0


def collector(ch, out, rounds, cancels):
    agg = ResultsAggregator.load(out)
    for k in range(rounds):
        agg.process_results()
        if k == 0:
            for row in cancels:
                agg.append_result(_result(row))
    return 0


def reader(ch, out):
    ResultsAggregator.list_results(out)
    return 0
