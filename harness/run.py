"""Scenario drivers: run one scenario of the real code inside the simulated world and return its
trace (scenario record + observable events)."""
import json
import os
import random
import shutil
import sys
import tempfile

from harness import project, scenario
from harness.world import World, HarnessError, warm

SCRATCH = os.environ.get("VERIF_SCRATCH") or ("/dev/shm/jade-verif" if os.path.isdir("/dev/shm") else
                                              os.path.join(os.path.dirname(os.path.dirname(__file__)), "out", "scratch"))


def mkbase():
    os.makedirs(SCRATCH, exist_ok=True)
    return tempfile.mkdtemp(prefix="w", dir=SCRATCH)


def setup_registry():
    """A private registry with only generic_command (the default one pulls the demo extension)."""
    path = os.path.join(SCRATCH, "registry.json")
    os.makedirs(SCRATCH, exist_ok=True)
    if not os.path.exists(path):
        sys.path.insert(0, os.environ.get("VERIF_REPO", "/repo"))
        from jade.extensions.registry import DEFAULT_REGISTRY
        d = dict(DEFAULT_REGISTRY)
        d["format_version"] = "v0.2.0"
        tmp = path + f".{os.getpid()}"
        with open(tmp, "w") as f:
            json.dump(d, f)
        os.replace(tmp, path)
    os.environ["JADE_REGISTRY"] = path


def random_chooser(rng):
    def choose(world, moves):
        return moves[rng.randrange(len(moves))]
    return choose


def fifo_chooser(world, moves):
    return moves[0]


class Run:
    """One scenario execution."""

    def __init__(self, scn, seed=0, fault_mode=False, debug=False, keep=False):
        self.scn = scn
        self.seed = seed
        self.rng = random.Random(seed)
        self.base = mkbase()
        self.keep = keep
        self.w = World(scn, self.base, fault_mode=fault_mode, debug=debug)
        self.cfgfile = scenario.write_config(scn, self.base)
        self.recoveries = 0

    # ---- user commands
    def submit(self, host="login"):
        self.w.ev(e="cmd", pid=0, host=host, argv=["jade", "submit-jobs"], nested=False)
        return self.w.spawn(argv=["jade", "submit-jobs", self.cfgfile, "-o", self.w.out], host=host,
                            env={"VERIF_CPUS": str(self.scn.get("cpus", 4))})

    def user(self, *args, host="login"):
        self.w.ev(e="cmd", pid=0, host=host, argv=["jade"] + list(args[:1]), nested=False)
        return self.w.spawn(argv=["jade"] + list(args), host=host)

    def drain(self, chooser=None):
        return self.w.run(chooser or random_chooser(self.rng))

    def status(self):
        return project.read_status(self.w.out)

    def recover(self, max_rounds=None, chooser=None, how=None):
        """The documented recovery: try-submit-jobs (or show-status -n, which decides by itself)
        whenever the world is quiescent and the submission incomplete."""
        n = len(self.scn["jobs"]) + 2 if max_rounds is None else max_rounds
        while self.recoveries < n:
            st = self.status()
            if st is None or st["complete"]:
                break
            self.recoveries += 1
            which = how or ("show-status" if self.rng.random() < 0.3 else "try-submit-jobs")
            if which == "show-status":
                self.user("show-status", "-o", self.w.out, "-n")
            else:
                self.user("try-submit-jobs", self.w.out)
            self.drain(chooser)
        return self.status()

    def observe_events(self):
        """What a user who asks for the events now is shown (jade's own EventsSummary: consolidates if nobody has yet)
        against every line of the *events.log files: counts by event name."""
        import glob
        from jade.events import EventsSummary
        out = self.w.out
        logged = {}
        for f in glob.glob(os.path.join(out, "*events.log")):
            with open(f) as fh:
                for line in fh:
                    if line.strip():
                        n = json.loads(line)["name"]
                        logged[n] = logged.get(n, 0) + 1
        es = EventsSummary(out)
        summary = {}
        for n in logged:
            if n in EventsSummary.RESOURCE_STATS:
                if n != "process_stats":          # one row per process there, not per event
                    summary[n] = int(len(es.get_dataframe(n)))
            else:
                summary[n] = len(es.list_events(n))
        logged = {n: c for n, c in logged.items() if n != "process_stats"}
        if self.scn.get("jobevents") and not self.scn.get("faults") and not self.scn.get("nodefaults"):
            # ground truth for the jobs' own events: what the job processes wrote (a line that reached no log file is lost)
            logged["verif_job_event"] = getattr(self.w, "jobevents_written", 0)
            summary.setdefault("verif_job_event", 0)
        self.w.ev(e="eventsobs", logged=sorted([n, c] for n, c in logged.items()), summary=sorted([n, c] for n, c in summary.items()))

    def finish(self):
        self.w.close()
        tr = {"scn": self.scn, "ev": self.w.trace, "moves": self.w.moves, "seed": self.seed}
        if not self.keep:
            shutil.rmtree(self.base, ignore_errors=True)
        return tr


def run_hpc(scn, seed, debug=False, keep=False, eager=0.0):
    """submit-jobs, random interleaving of everything, documented recovery until complete."""
    r = Run(scn, seed, debug=debug, keep=keep)
    try:
        r.submit()
        r.drain(EagerUser(r, random_chooser(r.rng), prob=eager) if eager else None)
        if scn["mode"] != "local" and not any(g.get("dry") for g in scn["groups"]):
            r.recover()
        r.w.ev(e="end", recoveries=r.recoveries)
    finally:
        tr = r.finish()
    return tr


class EagerUser:
    """Wraps a chooser: now and then the user runs the documented try-submit-jobs (or show-status -n) while batches are
    still active -- not only when everything has gone quiet."""

    def __init__(self, run, inner, prob=0.03, limit=4):
        self.run, self.inner, self.prob, self.left = run, inner, prob, limit

    def __call__(self, world, moves):
        if self.left > 0 and self.run.rng.random() < self.prob and world.last_status.get(world.out) is not None \
                and not any(p.alive and p.host == "user" for p in world.procs):
            self.left -= 1
            if self.run.rng.random() < 0.3:
                self.run.user("show-status", "-o", world.out, "-n", host="user")
            else:
                self.run.user("try-submit-jobs", world.out, host="user")
        return self.inner(world, moves)


class Injector:
    """Seeded random chooser that injects faults: at the k-th scheduling step of process `pid` (kill, node kill, failed
    write, failed lock acquisition), or a user command at global step `t` (usertry)."""

    def __init__(self, rng, plan, run=None):
        self.rng, self.run = rng, run
        self.plans = [] if plan is None else (plan if isinstance(plan, list) else [plan])
        self.fired = [False] * len(self.plans)
        self.done = False

    def _stalled(self, world, mv):
        """A stall plan holds the user's command at its j-th step until every other injection has fired; a delay plan
        holds the process (label, batch) at its j-th step for d scheduling steps of the others."""
        if mv[0] != "step":
            return False
        q = world.proc(mv[1])
        for i, pl in enumerate(self.plans):
            if pl["kind"] == "delay" and q.label == pl["label"] and world._bnum(q.batch) == pl["b"] and q.nsteps == pl["j"]:
                start = pl.setdefault("_start", world.steps)
                if world.steps < start + pl["d"]:
                    return True
                self.fired[i] = True
        for i, pl in enumerate(self.plans):
            # "hold": processes of one kind do not move while a process of another kind is alive (a node that is slow to
            # leave the scheduler while the user's command runs)
            if pl["kind"] == "hold" and q.label == pl["label"] and any(x.alive and x.label == pl["while"] for x in world.procs):
                return True
        for i, pl in enumerate(self.plans):
            if pl["kind"] == "stall" and q.host == "user" and q.nsteps == pl["j"]:
                others = [f for k2, f in enumerate(self.fired) if self.plans[k2]["kind"] not in ("stall", "usertry", "delay", "prio", "hold")]
                if not all(others):
                    return True
        return False

    def __call__(self, world, moves):
        for i, pl in enumerate(self.plans):
            if not self.fired[i] and pl["kind"] == "usertry" and self.run is not None:
                st = world.last_status.get(world.out)
                if pl.get("when") == "complete":
                    # as soon as the completion flag is set -- the completing round and its batch may still be running
                    go = st is not None and st["complete"] and st["sub"] == ""
                elif pl.get("when") == "free":
                    go = st is not None and st["sub"] == "" and not st["complete"] and world._active() > 0 and \
                        world.steps >= pl.get("t", 0)
                else:
                    go = st is not None and world.steps >= pl["t"]
                if go:
                    self.fired[i] = True
                    argv = pl.get("argv") or ["try-submit-jobs", "{out}"]
                    self.run.user(*[a.replace("{out}", world.out) for a in argv], host=pl.get("host", "user"))
                    moves = world.enabled() or moves          # the new process can move too
        free = [m for m in moves if not self._stalled(world, m)]
        if free:
            moves = free
        for pl in self.plans:
            # "prio": the named command runs to its end before anything else moves (submit-jobs returns within a second on a
            # real system, long before the first batch starts)
            if pl["kind"] == "prio":
                first = [m for m in moves if m[0] == "step" and world.proc(m[1]).label == pl["label"]]
                if first:
                    moves = first
        mv = moves[self.rng.randrange(len(moves))]
        for i, pl in enumerate(self.plans):
            if self.fired[i] or pl["kind"] in ("usertry", "stall", "delay", "prio", "hold"):
                continue
            if mv[0] != "step":
                continue
            q = world.proc(mv[1])
            if "b" in pl:      # target named by its batch (process ids shift when user commands are injected)
                hit = q.label == pl.get("label", "run-jobs") and world._bnum(q.batch) == pl["b"]
            else:
                hit = mv[1] == pl["pid"]
            if hit and q.nsteps == pl["k"] and not (pl["kind"] == "nodekill" and q.batch is None):
                self.fired[i] = True
                self.done = True
                kind = pl["kind"]
                if kind == "kill":
                    return ("kill", mv[1], "sweep")
                if kind == "nodekill":
                    return ("nodekill", world.proc(mv[1]).batch, "kill")
                if kind == "failwrite":
                    world.arm_fault(mv[1], "write", 1)
                elif kind == "faillock":
                    world.arm_fault(mv[1], "lock", 1)
        return mv


def run_fault(scn, seed, plan=None, fault_mode=False, recover_rounds=None, debug=False, eager=0.0, after=()):
    """A seeded random run with (at most) one injected fault, followed by the documented recovery.
    With plan=None this is the baseline whose per-process operation lists enumerate the injection points."""
    r = Run(scn, seed, fault_mode=fault_mode, debug=debug)
    inj = Injector(r.rng, plan, run=r)
    ops = {}
    try:
        r.submit()
        if plan is None:
            # record which operation each process is parked at before each of its steps
            def chooser(world, moves):
                mv = inj(world, moves)
                if mv[0] == "step":
                    p = world.proc(mv[1])
                    ops.setdefault(p.pid, {"label": p.label, "ops": []})["ops"].append(
                        [p.req["op"], os.path.basename(p.req.get("path") or "") or (os.path.basename(p.req["argv"][0]) if p.req.get("argv") else "")])
                return mv
        else:
            chooser = inj
        if eager:
            chooser = EagerUser(r, chooser, prob=eager)
        r.drain(chooser)
        for argv in after:     # further user commands, each issued when everything has gone quiet
            r.user(*[a.replace("{out}", r.w.out) for a in argv], host="login")
            r.drain(chooser)
        if not any(g.get("dry") for g in scn["groups"]):
            # with max_nodes=1 a node's own round can never submit (its batch still counts): one user round per batch
            r.recover(max_rounds=recover_rounds or len(scn["jobs"]) + 3, chooser=chooser, how="try-submit-jobs")
        r.w.ev(e="end", recoveries=r.recoveries, full=True)
    finally:
        tr = r.finish()
    tr["ops"] = ops
    tr["plan"] = plan
    tr["injected"] = inj.done
    return tr


def run_cancel_quiet(scn, seed, k, after=(), debug=False, complete_ids=False):
    """cancel-jobs at a quiet moment: all batches have ended, the submission is incomplete, nobody is submitter (jobs are
    still unsubmitted because of max-nodes or dependencies and the user has not run the recovery yet).  k = after how many
    recovery rounds (0: at the first quiet moment)."""
    r = Run(scn, seed, debug=debug)
    try:
        r.submit()
        r.drain()
        for _ in range(k):
            st = r.status()
            if st is None or st["complete"]:
                break
            r.recoveries += 1
            r.user("try-submit-jobs", r.w.out)
            r.drain()
        if complete_ids:
            # the ended batches' ids are removed from the job status first (JobRunner._complete_hpc_job's steps, through
            # the public Cluster API): cancel-jobs then finds no HPC job id at all, and unsubmitted jobs
            p = r.w.spawn(kind="api", module="harness.drivers.cluster", func="complete_ids", host="login",
                          args={"out": r.w.out}, label="complete-ids")
            r.drain()
        r.user("cancel-jobs", r.w.out)
        r.drain()
        for argv in after:
            r.user(*[a.replace("{out}", r.w.out) for a in argv])
            r.drain()
        r.w.ev(e="end", recoveries=r.recoveries, full=False)
    finally:
        tr = r.finish()
    return tr


def regroup_file(r, scn, newgroups, k):
    """What the user does before `resubmit-jobs -s`: `jade config save-submission-groups`, edit the parameters, pass the file.
    The trace gets a `regroup` event with the new parameters in the monitor's form."""
    from harness import scenario
    data = json.load(open(os.path.join(r.w.out, "submitter_groups.json")))
    byname = {g["name"]: g for g in newgroups}
    for g in data:
        n = byname[g["name"]]
        sp = g["submitter_params"]
        sp["per_node_batch_size"] = n["size"]
        sp["try_add_blocked_jobs"] = bool(n["tryadd"])
        sp["num_parallel_processes_per_node"] = n["procs"] or None
        sp["time_based_batching"] = bool(n["tb"])
        sp["verbose"] = bool(n.get("verbose", False))
        sp["hpc_config"]["hpc"]["walltime"] = f"0:{int(n.get('wall', scenario.WALL_MIN))}:00"
        for key in ("partition", "qos", "mem"):
            sp["hpc_config"]["hpc"][key] = n.get(key) or None
    path = os.path.join(os.path.dirname(r.w.out), f"new_groups_{k}.json")
    with open(path, "w") as f:
        json.dump(data, f, indent=2)
    scn2 = dict(scn, groups=newgroups)
    r.w.ev(e="regroup", groups=scenario.tla_scn(scn2, "x")["groups"])
    return path


def run_resubmit(scn, seed, flag_sets, regroups=None, debug=False):
    """Run a submission to completion, then resubmit-jobs (once per entry of flag_sets), each followed by the recovery.
    regroups[k] (optional): the groups' new parameters handed to the k-th resubmission with -s."""
    r = Run(scn, seed, debug=debug)
    try:
        r.submit()
        r.drain()
        r.recover(how="try-submit-jobs")
        for k, flags in enumerate(flag_sets):
            r.recoveries = 0
            st = r.status()
            if regroups and k < len(regroups) and regroups[k] and st and st["complete"]:
                flags = list(flags) + ["-s", regroup_file(r, scn, regroups[k], k)]
            r.user("resubmit-jobs", r.w.out, *flags)
            r.drain()
            r.recover(how="try-submit-jobs")
        if scn.get("reports") and scn.get("monitor"):
            r.observe_events()
        r.w.ev(e="end", recoveries=r.recoveries, full=True)
    finally:
        tr = r.finish()
    return tr


def run_resubmit_incomplete(scn, seed, variant, debug=False):
    """resubmit-jobs on a submission that is not complete.
    variant 'quiet': after submit-jobs, batches still pending, nobody is submitter.
    variant 'held-other' / 'held-same': while a compute node's try-submit-jobs holds the submitter role (parked right
    after its promotion); resubmit-jobs is run from another host / from the same host."""
    r = Run(scn, seed, debug=debug)
    w = r.w
    try:
        p = r.submit()
        while p.alive:
            w.do(("step", p.pid))
        host = "login"
        if variant != "quiet":
            # start batches and run until some try-submit-jobs process holds the role
            guard = 0
            holder = None
            while holder is None and guard < 3000:
                guard += 1
                st = w.last_status.get(w.out)
                if st and st["sub"] and not os.path.exists(os.path.join(w.out, "cluster_config.json.lock")):
                    cands = [q for q in w.procs if q.alive and q.label == "try-submit-jobs" and q.host == st["sub"]]
                    if cands:
                        holder = cands[0]
                        break
                moves = [m for m in w.enabled() if not (m[0] == "step" and w.spinning(w.proc(m[1])))] or w.enabled()
                if not moves:
                    break
                w.do(moves[r.rng.randrange(len(moves))])
            if holder is not None:
                host = holder.host if variant == "held-same" else "login"
        q = r.user("resubmit-jobs", w.out, host=host)
        guard = 0
        while q.alive and guard < 500:       # only the resubmit process moves (everything else is held)
            guard += 1
            if w._step_enabled(q):
                w.do(("step", q.pid))
            else:
                qm = [m for m in w.quiescent_moves() if m[1] == q.pid]
                if not qm:
                    break
                w.do(qm[0])
        # afterwards the world goes on
        r.drain()
        r.recover(how="try-submit-jobs")
        w.ev(e="end", recoveries=r.recoveries, full=True)
    finally:
        tr = r.finish()
    return tr


def run_first_round(scn, seed, debug=False):
    """submit-jobs alone: the first submitter round (no batch starts). For dry runs this is the whole run."""
    r = Run(scn, seed, debug=debug)
    try:
        p = r.submit()
        n = 0
        while p.alive and n < 5000:
            r.w.do(("step", p.pid))
            n += 1
        r.w.ev(e="end", recoveries=0, full=False)
    finally:
        tr = r.finish()
    return tr


def first_round_batches(tr):
    return [e["jobs"] for e in sorted((e for e in tr["ev"] if e["e"] == "cfgbatch"), key=lambda e: e["b"])]


if __name__ == "__main__":
    import argparse
    ap = argparse.ArgumentParser()
    ap.add_argument("--seed", type=int, default=1)
    ap.add_argument("--debug", action="store_true")
    ap.add_argument("--keep", action="store_true")
    ap.add_argument("-n", type=int, default=1)
    a = ap.parse_args()
    setup_registry()
    warm()
    import time
    t0 = time.time()
    for s in range(a.seed, a.seed + a.n):
        scn = scenario.gen(random.Random(s))
        tr = run_hpc(scn, s, debug=a.debug, keep=a.keep)
        if a.n == 1:
            print(json.dumps(scn))
            for e in tr["ev"]:
                print(json.dumps(e)[:400])
    print("wall", time.time() - t0, "scenarios", a.n, file=sys.stderr)
