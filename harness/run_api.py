"""Drivers for the focused modules: the real ResultsAggregator / Cluster API in virtual processes."""
import json
import os
import random
import shutil

from harness import project
from harness.run import mkbase, random_chooser
from harness.world import World


def row6(name, rc, status, file):
    return [name, str(rc), status, "0.0", "1.0", "None" if status == "canceled" else str(file)]


def results_plans():
    """Plans for Results.tla and for the real aggregator (the same records)."""
    def plan(pid, appenders, collectors, readers, blk=None, flag=()):
        names = [r[0] for a in appenders for r in a["rows"]] + [r[0] for c in collectors for r in c["cancels"]]
        scn = {"jobs": names, "blk": {j: sorted((blk or {}).get(j, [])) for j in names}, "flag": {j: j in flag for j in names},
               "rc": {r[0]: int(r[1]) for a in appenders for r in a["rows"]}, "est": {j: 0 for j in names},
               "grp": {j: "default" for j in names},
               "groups": [{"name": "default", "tb": False, "size": 1, "tryadd": False, "procs": 1, "dry": False,
                           "partition": "", "qos": "", "mem": "", "verbose": False}],
               "maxnodes": 0, "mode": "api", "cpus": 1}
        for c in collectors:
            for r in c["cancels"]:
                scn["rc"][r[0]] = 0
        return {"id": pid, "appenders": appenders, "collectors": collectors, "readers": readers, "scn": scn}
    A = lambda f, *rows: {"file": f, "rows": [row6(n, rc, "finished", f) for n, rc in rows]}
    C = lambda rounds, *cancels: {"rounds": rounds, "cancels": [row6(n, 1, "canceled", 0) for n in cancels]}
    return [
        plan("p1", [A(1, ("A", 0), ("B", 1)), A(2, ("C", 0))], [C(2, "E"), C(1)], 1, blk={"E": ["B"]}, flag="E"),
        plan("p2", [A(1, ("A", 0)), A(1, ("B", 0)), A(2, ("C", 2), ("D", 0))], [C(2), C(2)], 0),
        plan("p3", [A(1, ("A", 0), ("B", 0), ("C", 0))], [C(3), C(1, "Z")], 1, blk={"Z": ["A"]}, flag="Z"),
    ]


def run_results(plan, seed=None, path=None, debug=False, fine=False):
    """Run one plan on the real aggregator under a random schedule (seed) or a model behaviour (path).
    fine=True: every file operation on a result or lock file is a scheduling point too (random schedules only)."""
    base = mkbase()
    scn = dict(plan["scn"])
    w = World(scn, base, debug=debug, fault_mode=fine)
    out = w.out
    os.makedirs(os.path.join(out, "results"), exist_ok=True)
    diverged = None
    skipped = None
    try:
        p = w.spawn(kind="api", module="harness.drivers.results", func="creator", args={"out": out}, label="creator")
        while p.alive:
            w.do(("step", p.pid))
        for a in plan["appenders"]:
            for r in a["rows"]:
                w.ev(e="jobexit", job=r[0], rc=int(r[1]), b=a["file"])
        procs = []
        for a in plan["appenders"]:
            procs.append(w.spawn(kind="api", module="harness.drivers.results", func="appender", host=f"node{a['file']}",
                                 args={"out": out, "file": a["file"], "rows": a["rows"]}, label="appender"))
        for c in plan["collectors"]:
            procs.append(w.spawn(kind="api", module="harness.drivers.results", func="collector",
                                 args={"out": out, "rounds": c["rounds"], "cancels": c["cancels"]}, label="collector"))
        for _ in range(plan["readers"]):
            procs.append(w.spawn(kind="api", module="harness.drivers.results", func="reader", args={"out": out}, label="reader"))
        sync = len(w.trace)
        if path is not None:
            for k, lbl in enumerate(path):
                q = procs[lbl[1] - 1]
                if lbl[0] == "MoveOne" and q.alive:
                    # the order in which a collection visits the node files is the file system's (glob), not a choice
                    # the harness can make: a model behaviour that picked another order is not replayable, which is
                    # not a disagreement between model and code
                    from harness.replay_model import parked
                    pk = parked(q)
                    if pk[:2] == ("lock", "node") and pk[2] != lbl[2]:
                        skipped = {"step": k, "label": lbl, "why": f"glob order: real collection visits file {pk[2]} first"}
                        break
                if not q.alive or not w._step_enabled(q):
                    diverged = {"step": k, "label": lbl, "why": "process cannot move" if q.alive else "process ended"}
                    break
                w.do(("step", q.pid))
            if diverged is None and skipped is None and any(q.alive for q in procs):
                diverged = {"step": len(path), "label": None, "why": "model behaviour ended, processes still alive"}
        if path is None or diverged or skipped:
            w.run(random_chooser(random.Random(seed or 0)))
        w.ev(e="end", recoveries=0, full=False)
        final = project.read_rows(out)
    finally:
        w.close()
        shutil.rmtree(base, ignore_errors=True)
    tr = {"scn": scn, "ev": w.trace, "moves": w.moves, "seed": seed, "driver": ["results", plan["id"], seed, path],
          "conformance": ({"skipped": skipped} if skipped else {"diverged": diverged}), "sync": sync, "final": final}
    return tr


def cluster_scripts():
    H = lambda host, *ops: {"host": host, "ops": list(ops)}
    return [
        {"id": "k1", "scripts": [H("n1", "loadp", "update", "demote"), H("n2", "loadp", "update", "demote"), H("n1", "load", "promote", "demote")]},
        {"id": "k2", "scripts": [H("n1", "load", "update"), H("n2", "loadp", "jsonly", "demote")]},
        {"id": "k3", "scripts": [H("n1", "loadp", "jsonly", "update", "demote"), H("n2", "load", "update"), H("n2", "loadp", "demote")]},
        {"id": "k4", "scripts": [H("n1", "loadp", "cancel", "demote"), H("n2", "load", "cancel"), H("n1", "loadp", "demote")]},
        # crash histories (lock library that breaks a dead same-host process' marker): a process dies between the file
        # writes of one update; handles loaded before (and after) it then operate
        {"id": "k5", "modern": True, "scripts": [H("n1", "load", "promote", "update"), H("n1", "loadp!1"), H("n2", "load", "cancel")]},
        {"id": "k6", "modern": True, "scripts": [H("n1", "load", "update", "cancel"), H("n1", "loadp", "update!1"), H("n1", "loadp", "demote")]},
        {"id": "k7", "modern": True, "scripts": [H("n1", "load", "jsonly", "update"), H("n1", "loadp", "update!3"), H("n1", "load", "jsonly")]},
        {"id": "k8", "modern": True, "scripts": [H("n1", "load", "update"), H("n1", "loadp", "update!2"), H("n1", "load", "promote", "demote")]},
        # a stale handle that keeps trying after it was rejected (the deliberate marker is broken by the lock library)
        {"id": "k10", "modern": True, "scripts": [H("n1", "load", "jsonly", "jsonly", "update", "jsonly"), H("n2", "loadp", "jsonly", "jsonly", "demote")]},
        {"id": "k11", "modern": True, "scripts": [H("n1", "load", "cancel", "cancel", "update", "promote"), H("n2", "loadp", "update", "demote"), H("n2", "loadp", "demote")]},
        # the holder sets the completion flag and demotes afterwards (JobSubmitter._handle_completion, then the caller's
        # `finally`): others try for the role in between -- fresh handles and a handle loaded before
        {"id": "k12", "scripts": [H("n1", "loadp", "update", "complete", "demote"), H("n2", "loadp", "update", "demote"), H("n3", "load", "promote", "demote")]},
        {"id": "k13", "scripts": [H("n1", "loadp", "complete", "update", "demote"), H("n2", "loadp", "demote"), H("n1", "loadp", "cancel", "demote")]},
        # `submit-jobs --force` on the directory of a submission whose processes are still alive: their handles are ahead of the
        # new files' versions, and everything they do afterwards must be rejected like any other stale write.  (The plans keep the
        # new incarnation's versions below the old handles': the counters restart at 1, so an old handle whose version happens
        # to *equal* the new files' is not recognisable as stale by version numbers -- ClusterStore shows that too; re-creation is
        # not among the operations C10 quantifies over, see DESIGN 0.5.)
        {"id": "k14", "modern": True, "scripts": [H("n1", "loadp", "update", "cancel", "demote"), H("n2", "recreate", "demote")]},
        {"id": "k15", "modern": True, "scripts": [H("n1", "loadp", "cancel", "update", "update"), H("n1", "recreate", "demote")]},
        # time passes (two hours by the newcomer's clock) while somebody holds the role: the role is still held
        {"id": "k16", "scripts": [H("n1", "loadp", "update", "demote"), H("n2", "wait", "loadp", "demote"), H("n1", "wait", "load", "promote", "demote")]},
        {"id": "k9", "modern": True, "scripts": [H("n1", "load", "cancel", "promote"), H("n1", "loadp", "demote!1"), H("n1", "loadp", "jsonly!1"), H("n1", "load", "jsonly")]},
    ]


def cluster_scn():
    from harness import families
    return families.scn("AB", maxnodes=0)


def run_cluster(plan, seed=None, path=None, debug=False):
    """Handles running scripts of Cluster API operations, one cluster-lock hold per operation."""
    from harness import scenario
    base = mkbase()
    scn = cluster_scn()
    if plan.get("modern"):
        scn["locklib"] = "modern"
    w = World(scn, base, debug=debug)
    out = w.out
    os.makedirs(out, exist_ok=True)
    cfgfile = scenario.write_config(scn, base)
    diverged = None
    try:
        p = w.spawn(kind="api", module="harness.drivers.cluster", func="creator", args={"out": out, "cfgfile": cfgfile},
                    label="creator", host="login")
        while p.alive:
            w.do(("step", p.pid))
        procs = [w.spawn(kind="api", module="harness.drivers.cluster", func="handle", host=s["host"],
                         args={"out": out, "ops": s["ops"], "cfgfile": cfgfile}, label="handle") for s in plan["scripts"]]
        sync = len(w.trace)
        if path is not None:
            for k, lbl in enumerate(path):
                q = procs[lbl[1] - 1]
                if lbl[0] == "Skip":
                    continue
                if not q.alive:
                    diverged = {"step": k, "label": lbl, "why": "process ended"}
                    break
                if lbl[0] == "Blocked":
                    # the operation never gets the lock: it waits, and times out when nothing else can move
                    if q.req["op"] == "lock_try":
                        w.do(("step", q.pid))
                    if q.req["op"] != "lock_blocked":
                        diverged = {"step": k, "label": lbl, "why": f"model says blocked, process parked at {q.req['op']}"}
                        break
                    w.do(("locktimeout", q.pid))
                else:
                    if not w._step_enabled(q):
                        diverged = {"step": k, "label": lbl, "why": "process cannot move"}
                        break
                    w.do(("step", q.pid))
                    if q.alive and q.req["op"] == "lock_blocked" and w._step_enabled(q):
                        w.do(("step", q.pid))        # the lock library breaks the marker,
                        w.do(("step", q.pid))        # the acquisition is retried and the operation proceeds
                    if lbl[0] == "Recreate":
                        # Cluster.create writes through several lock holds: run the operation to its end
                        guard = 0
                        while q.alive and getattr(q, "cop", None) is not None and q.cop["op"] == "recreate" and guard < 12:
                            w.do(("step", q.pid))
                            guard += 1
                    if lbl[0] == "Crash" and q.alive:
                        diverged = {"step": k, "label": lbl, "why": "model says the operation dies part-way, the process lives"}
                        break
                    if q.alive and q.req["op"] == "lock_blocked":
                        diverged = {"step": k, "label": lbl, "why": "operation blocked on the lock, model says it runs"}
                        break
            if diverged is None and any(q.alive for q in procs):
                diverged = {"step": len(path), "label": None, "why": "model behaviour ended, processes still alive"}
        if path is None or diverged:
            w.run(random_chooser(random.Random(seed or 0)))
        w.ev(e="end", recoveries=0, full=False)
    finally:
        w.close()
        shutil.rmtree(base, ignore_errors=True)
    return {"scn": scn, "ev": w.trace, "moves": w.moves, "seed": seed, "driver": ["cluster", plan["id"], seed, path],
            "conformance": {"diverged": diverged}, "sync": sync}


def compare_cops(model_events, tr):
    """cop events predicted by ClusterStore vs observed (pids shifted by the creator process)."""
    real = [[e["pid"] - 1, e["op"], e["hcver"], e["hjver"], e["dcver"], e["djver"], e["ddcver"], e["ddjver"], e["exc"], e["changed"],
             e["ok"], e["before"]] for e in tr["ev"][tr["sync"]:] if e["e"] == "cop"]
    model = [[e["pid"], e["op"], e["hcver"] if e["loaded"] else -1, e["hjver"] if e["loaded"] else -1, e["dcver"], e["djver"],
              e["ddcver"], e["ddjver"], e["exc"], e["changed"], e["ok"], e["before"]] for e in model_events if e["e"] == "cop"]
    for i, (a, b) in enumerate(zip(model, real)):
        if a[1] == "recreate" and b[1] == "recreate":
            a, b = a[:2] + a[8:9] + a[10:], b[:2] + b[8:9] + b[10:]      # what was on disk before is irrelevant: it is removed
        if a != b:
            return {"index": i, "model": a, "real": b}
    if len(model) != len(real):
        return {"index": min(len(model), len(real)), "model": len(model), "real": len(real)}
    return None


# ---------------------------------------------------------------- pipelines (C15)
def gen_pipeline(rng, local=None):
    n = rng.randint(1, 4)
    stages = []
    for k in range(1, n + 1):
        nj = rng.randint(1, 2)
        jobs = [f"s{k}{chr(97 + i)}" for i in range(nj)]
        blk = {jobs[1]: [jobs[0]]} if nj == 2 and rng.random() < 0.5 else {}
        stages.append({"jobs": jobs, "blk": blk, "rc": {j: rng.choice([0, 0, 1]) for j in jobs}})
    auto = rng.random() < 0.5
    return {"stages": stages, "local": (rng.random() < 0.35) if local is None else local, "size": rng.randint(1, 2),
            "maxnodes": rng.choice([0, 1, 2]), "sbatch_fail_stage": rng.choice([0, 0, 0, 1]),
            # stages configured by auto-config commands; one of them (not the first) may fail
            "resub": rng.random() < 0.3,
            # (pipelines built from files) the first job of stage 1 rewrites stage 2's configuration file while it runs
            "regen": (not auto) and n >= 2 and rng.random() < 0.4,
            "auto": auto, "autofail": (rng.randint(2, n) if auto and n >= 2 and rng.random() < 0.2 else 0)}


def run_pipeline(pscn, seed, debug=False):
    from jade.extensions.generic_command import GenericCommandConfiguration, GenericCommandParameters
    from jade.jobs.pipeline_manager import PipelineManager
    from jade.models import SubmitterParams, HpcConfig, SlurmConfig, LocalHpcConfig
    rng = random.Random(seed)
    base = mkbase()
    rc = {}
    for st in pscn["stages"]:
        rc.update(st["rc"])
    scn = {"rc": rc, "cpus": 2, "locklib": "never"}
    if pscn.get("sbatch_fail_stage") and not pscn["local"]:
        scn["sbatch_fail"] = {"1": 7}      # the first batch of some stage(s) fails at sbatch: missing jobs, return code 1
    w = World(scn, base, debug=debug)
    w.out = os.path.join(base, "pout")
    w.watch_dirs = [w.out]
    w.cwd = base
    try:
        files = []
        for k, st in enumerate(pscn["stages"], 1):
            cfg = GenericCommandConfiguration()
            for j in st["jobs"]:
                cfg.add_job(GenericCommandParameters(name=j, command=f"vjob {j}", blocked_by=set(st["blk"].get(j, []))))
            f = os.path.join(base, f"stage{k}.json")
            cfg.dump(f)
            files.append(f)
        hpc = HpcConfig(hpc_type="local", hpc=LocalHpcConfig()) if pscn["local"] else \
            HpcConfig(hpc_type="slurm", hpc=SlurmConfig(account="acct", walltime="0:10:00"))
        sp = SubmitterParams(hpc_config=hpc, generate_reports=False, resource_monitor_type="none",
                             per_node_batch_size=pscn["size"], max_nodes=(pscn["maxnodes"] or None),
                             num_parallel_processes_per_node=2)
        pfile = os.path.join(base, "pipeline.json")
        stagejobs = [list(st["jobs"]) for st in pscn["stages"]]
        if pscn.get("regen") and not pscn.get("auto") and len(files) >= 2:
            # what stage 2 has to run is what its file says once stage 1 is done: the original jobs plus one more
            cfg = GenericCommandConfiguration()
            extra = "s2z"
            for j in pscn["stages"][1]["jobs"]:
                cfg.add_job(GenericCommandParameters(name=j, command=f"vjob {j}", blocked_by=set(pscn["stages"][1]["blk"].get(j, []))))
            cfg.add_job(GenericCommandParameters(name=extra, command=f"vjob {extra}"))
            newf = os.path.join(base, "stage2_new.json")
            cfg.dump(newf)
            w.regen = {pscn["stages"][0]["jobs"][0]: {"src": newf, "dst": files[1], "stage": 2}}
        if pscn.get("auto"):
            PipelineManager.create_config_from_commands([f"vautoconfig {k}" for k in range(1, len(files) + 1)], pfile, sp)
            w.autoconfig = {str(k): {"src": f, "rc": 1 if pscn.get("autofail") == k else 0} for k, f in enumerate(files, 1)}
        else:
            PipelineManager.create_config_from_files(files, pfile, sp)
        w.ev(e="cmd", pid=0, host="login", argv=["jade", "pipeline", "submit"], nested=False)
        w.spawn(argv=["jade", "pipeline", "submit", pfile, "-o", w.out], host="login", env={"VERIF_CPUS": "2"},
                label="pipeline-submit")
        chooser = random_chooser(rng)
        w.run(chooser)
        rec = 0
        while rec < 12:
            pj = project.read_pipeline(w.out)
            if pj is None or pj["complete"] or pscn["local"]:
                break
            rec += 1
            sd = os.path.join(w.out, f"output-stage{pj['stage']}")
            w.ev(e="cmd", pid=0, host="login", argv=["jade", "try-submit-jobs"], nested=False)
            w.spawn(argv=["jade", "try-submit-jobs", sd], host="login")
            w.run(chooser)
        if pscn.get("resub") and not pscn["local"]:
            # the user reruns an earlier stage's jobs while the pipeline is further on (here: after its end): when they are
            # done that stage announces its completion to the pipeline a second time
            pj = project.read_pipeline(w.out)
            if pj is not None and pj["stage"] >= 2:
                sd1 = os.path.join(w.out, "output-stage1")
                w.ev(e="cmd", pid=0, host="login", argv=["jade", "resubmit-jobs"], nested=False)
                w.spawn(argv=["jade", "resubmit-jobs", sd1, "--successful"], host="login")
                w.run(chooser)
                for _ in range(4):
                    st1 = project.read_status(sd1)
                    if st1 is None or st1["complete"]:
                        break
                    w.spawn(argv=["jade", "try-submit-jobs", sd1], host="login")
                    w.run(chooser)
        w.ev(e="end", recoveries=rec, full=True)
    finally:
        w.close()
        shutil.rmtree(base, ignore_errors=True)
    ireg = next((i for i, e in enumerate(w.trace) if e["e"] == "regen"), None)
    ist2 = next((i for i, e in enumerate(w.trace) if e.get("dir") == "output-stage2"), len(w.trace))
    if ireg is not None and ireg < ist2:       # the job that rewrites stage 2's file ran before stage 2 was configured
        stagejobs[1] = stagejobs[1] + ["s2z"]
    return {"scn": {"n": len(pscn["stages"]), "stagejobs": stagejobs}, "pscn": pscn, "ev": w.trace, "moves": w.moves, "seed": seed,
            "driver": ["pipeline", pscn, seed]}


def encode_pipeline(tr, sid):
    import re
    evs, idx = [], []

    def stage(e):
        m = re.match(r"output-stage(\d+)$", e.get("dir", "") or "")
        return int(m.group(1)) if m else None

    for i, e in enumerate(tr["ev"]):
        k = e["e"]
        x = None
        if k == "promote" and e.get("create") and stage(e):
            # the jobs the stage's submission was created with: the first status of that directory
            st0 = next((y for y in tr["ev"] if y.get("e") == "status" and stage(y) == stage(e)), None)
            x = {"e": "create", "k": stage(e), "jobs": sorted(st0["jobs"]) if st0 else []}
        elif k == "status" and stage(e):
            x = {"e": "status", "k": stage(e), "complete": e["complete"]}
        elif k == "sbatch" and e.get("ok") and stage(e):
            x = {"e": "activity", "k": stage(e)}
        elif k == "launch" and stage(e):
            x = {"e": "activity", "k": stage(e)}
        elif k == "summary" and stage(e):
            x = {"e": "summary", "k": stage(e), "nmissing": len(e["missing"])}
        elif k == "pipeline":
            x = {"e": "pipeline", "stage": e["stage"], "complete": e["complete"], "rcs": e["rcs"]}
        elif k == "autoconfig":
            x = {"e": "autoconfig", "k": e["k"], "envstage": e["envstage"], "stage": e["stage"], "rcs": e["rcs"], "rc": e["rc"]}
        elif k in ("kill", "fault", "hang"):
            x = {"e": "fault"}
        elif k == "end":
            x = {"e": "end"}
        if x is not None:
            evs.append(x)
            idx.append(i)
    return {"scn": {"id": sid, "n": tr["scn"]["n"], "stagejobs": [sorted(x) for x in tr["scn"].get("stagejobs", [])]}, "ev": evs}, idx
