"""The abstraction function: project the files of a JADE output directory onto the abstract
state the specifications talk about.  Evaluated by the controller while every virtual process is
parked, hence a consistent snapshot."""
import csv
import glob
import json
import os
import re

ST = {"not_submitted": 0, "submitted": 1, "done": 2}
FIELDS = ["name", "return_code", "status", "exec_time_s", "completion_time", "hpc_job_id"]


def _read_int(path):
    try:
        with open(path) as f:
            return int(f.read().strip())
    except Exception:
        return -1


def read_json(path):
    try:
        with open(path) as f:
            return json.load(f)
    except Exception:
        return None


def read_rows_file(path):
    """Return (rows, parses). rows are lists of the six fields as strings. Read the way JADE's own reader does
    (text mode with universal newlines, csv.DictReader, int/float conversion of the numeric fields)."""
    try:
        f = open(path, newline=None)
    except FileNotFoundError:
        return None, True
    rows, ok = [], True
    with f:
        try:
            reader = csv.DictReader(f)
            if reader.fieldnames != FIELDS:
                ok = False
            for rec in reader:
                vals = [rec.get(k) for k in FIELDS]
                if any(v is None for v in vals) or None in rec:
                    ok = False
                    rows.append([("" if v is None else str(v)) for v in vals])
                    continue
                try:
                    int(vals[1]); float(vals[3]); float(vals[4])
                except ValueError:
                    ok = False
                rows.append(vals)
        except csv.Error:
            ok = False
    return rows, ok


def read_rows(out):
    """Rows per node file (keyed by batch number) and in the processed file."""
    proc, pok = read_rows_file(os.path.join(out, "processed_results.csv"))
    node = {}
    nok = True
    for path in sorted(glob.glob(os.path.join(out, "results", "results_batch_*.csv"))):
        m = re.search(r"results_batch_(\d+)\.csv$", path)
        rows, ok = read_rows_file(path)
        if rows is None:
            continue
        node[int(m.group(1))] = rows
        nok = nok and ok
    return {"proc": proc, "proc_ok": pok, "node": node, "node_ok": nok}


def names_with_rows(out):
    r = read_rows(out)
    names = set()
    for row in r["proc"] or []:
        names.add(row[0])
    for rows in r["node"].values():
        for row in rows:
            names.add(row[0])
    return sorted(names)


def read_status(out):
    cfg = read_json(os.path.join(out, "cluster_config.json"))
    js = read_json(os.path.join(out, "job_status.json"))
    if cfg is None or js is None:
        return None
    return {
        "sub": cfg.get("submitter") or "",
        "njobs": cfg["num_jobs"],
        "nsub": cfg["submitted_jobs"],
        "ndone": cfg["completed_jobs"],
        "complete": bool(cfg["is_complete"]),
        "canceled": bool(cfg["is_canceled"]),
        "stage": cfg.get("pipeline_stage_num") or 0,
        "cver": cfg["version"],
        "cverf": _read_int(os.path.join(out, "config_version.txt")),
        "jver": js["version"],
        "jverf": _read_int(os.path.join(out, "job_status_version.txt")),
        "jobs": [j["name"] for j in js["jobs"]],
        "st": {j["name"]: ST[j["state"]] for j in js["jobs"]},
        "rem": {j["name"]: sorted(j["blocked_by"]) for j in js["jobs"]},
        "ids": [str(x) for x in js["hpc_job_ids"]],
        "bidx": js["batch_index"],
        "marker": os.path.exists(os.path.join(out, "submitter.lock")),
    }


def read_summary(out):
    data = read_json(os.path.join(out, "results.json"))
    if data is None:
        return None
    return {
        "res": [[r["name"], r["return_code"], r["status"], str(r["exec_time_s"]),
                 str(r["completion_time"]), str(r["hpc_job_id"])] for r in data["results"]],
        "missing": list(data["missing_jobs"]),
        "tally": [data["results_summary"]["num_successful"], data["results_summary"]["num_failed"],
                  data["results_summary"]["num_canceled"], data["results_summary"]["num_missing"]],
    }


def read_batch_cfg(path):
    data = read_json(path)
    if data is None:
        return None
    return {"jobs": [j["name"] for j in data["jobs"]],
            "hb": [sorted(j.get("blocked_by", [])) for j in data["jobs"]],
            "grp": sorted({j.get("submission_group", "default") for j in data["jobs"]})}


def read_pipeline(pdir):
    data = read_json(os.path.join(pdir, "pipeline.json"))
    if data is None:
        return None
    return {"stage": data["stage_num"], "complete": bool(data.get("is_complete", False)),
            "rcs": [(-1 if s.get("return_code") is None else s["return_code"]) for s in data["stages"]],
            "n": len(data["stages"])}


_SBATCH = re.compile(r"^#SBATCH --([A-Za-z_\-]+)=(.*)$")


def parse_sbatch_script(path):
    """Return (directives dict, srun target)."""
    opts = {}
    target = None
    with open(path) as f:
        for line in f.read().split("\n"):
            m = _SBATCH.match(line)
            if m:
                opts[m.group(1)] = m.group(2)
            elif line.startswith("srun "):
                target = line[5:].strip()
    return opts, target


def parse_run_script(path):
    """Return the argv of the jade-internal line of a run script (after singularity etc.)."""
    with open(path) as f:
        lines = [x for x in f.read().split("\n") if x.strip()]
    for line in lines:
        if line.startswith("jade-internal run-jobs"):
            return line.split()
    return None
