"""Running TLC and reading its output."""
import os
import re
import shutil
import subprocess
import tempfile
import time

JAR = "/opt/veriftools/tla/tla2tools.jar:/opt/veriftools/tla/CommunityModules-deps.jar"
SPEC = os.path.join(os.path.dirname(os.path.dirname(os.path.abspath(__file__))), "spec")
OUT = os.path.join(os.path.dirname(os.path.dirname(os.path.abspath(__file__))), "out")


class TlcError(Exception):
    pass


def run_tlc(module, cfg=None, workers=1, env=None, extra=(), timeout=3600, jvm=(), cwd=None, simulate=None,
            heap="4g"):
    """Run TLC on spec/<module>.tla. Returns dict(rc, out, states, distinct, wall)."""
    os.makedirs(OUT, exist_ok=True)
    meta = tempfile.mkdtemp(prefix="tlcmeta", dir=OUT)
    # -Xss: the monitor's fold builds deeply nested lazy values (one level per clause and event)
    cmd = ["java", "-XX:+UseParallelGC", f"-Xmx{heap}", "-Xss64m", f"-DTLA-Library={SPEC}", *jvm, "-cp", JAR, "tlc2.TLC",
           "-workers", str(workers),
           "-metadir", meta, "-noGenerateSpecTE"]
    if cfg:
        cmd += ["-config", cfg]
    if simulate:
        cmd += ["-simulate", simulate]
    cmd += list(extra) + [module]
    e = dict(os.environ)
    e.update(env or {})
    t0 = time.time()
    try:
        p = subprocess.run(cmd, cwd=cwd or SPEC, env=e, stdout=subprocess.PIPE, stderr=subprocess.STDOUT,
                           timeout=timeout, text=True)
        out, rc = p.stdout, p.returncode
    except subprocess.TimeoutExpired as ex:
        out = (ex.stdout or b"").decode() if isinstance(ex.stdout, bytes) else (ex.stdout or "")
        rc = -1
    finally:
        shutil.rmtree(meta, ignore_errors=True)
    res = {"rc": rc, "out": out, "wall": time.time() - t0, "states": 0, "distinct": 0, "cmd": " ".join(cmd)}
    m = re.search(r"(\d+) states generated, (\d+) distinct states found", out)
    if m:
        res["states"], res["distinct"] = int(m.group(1)), int(m.group(2))
    return res


def tlc_ok(res):
    return res["rc"] == 0 and "Model checking completed. No error has been found." in res["out"]
