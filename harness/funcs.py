"""Function-level properties (C17-C20): the input spaces are enumerated here, the real code is executed on every
input, and the recorded (input, output) observations are validated by TLC against the operators of the property's
specification module (same batch idiom as the trace validation)."""
import itertools
import json
import os
import re
import shutil
import sys
import tempfile
from fractions import Fraction

VERIF = os.path.dirname(os.path.dirname(os.path.abspath(__file__)))
from harness import tlc  # noqa: E402
from harness import tracecheck  # noqa: E402
from harness.run import mkbase  # noqa: E402

_VERDICT = re.compile(r'<<"VERDICT", "(.*)">>\s*$')


def validate(module, cfg, obs, shards=8):
    """Run TLC (module/cfg) on the observations; returns (list of violated clause sets by obs id, stats)."""
    from concurrent.futures import ThreadPoolExecutor
    os.makedirs(tlc.OUT, exist_ok=True)
    for i, o in enumerate(obs):
        o["id"] = i
    n = len(obs)
    shards = max(1, min(shards, (n + 199) // 200))
    parts = [obs[k::shards] for k in range(shards)]
    files = []
    for k, part in enumerate(parts):
        fd, path = tempfile.mkstemp(prefix=f"obs{k}_", suffix=".json", dir=tlc.OUT)
        with os.fdopen(fd, "w") as f:
            json.dump(tracecheck.nonull(part), f)
        files.append(path)
    with ThreadPoolExecutor(max_workers=shards) as ex:
        results = list(ex.map(lambda p: tlc.run_tlc(module, cfg=cfg, workers=1, env={"TRACE_FILE": p}, timeout=3000), files))
    out = [None] * n
    states = 0
    for res, path in zip(results, files):
        if not tlc.tlc_ok(res):
            raise tlc.TlcError(f"{module} failed on {path}:\n" + res["out"][-3000:])
        states += res["distinct"]
        for line in res["out"].split("\n"):
            mm = _VERDICT.search(line.strip())
            if mm:
                v = json.loads(mm.group(1).replace('\\"', '"').replace("\\\\", "\\"))
                out[int(v["id"])] = sorted(v["viol"])
        os.remove(path)
    if any(x is None for x in out):
        raise tlc.TlcError(f"{module}: no verdict for some observations")
    return out, {"tlc_states": states, "tlc_wall": max(r["wall"] for r in results)}


def _clamp(x):
    """TLC integers are 32 bit; anything that is not a small non-negative integer is reported as -1."""
    try:
        if float(x) != int(x) or not (0 <= int(x) <= 10 ** 6):
            return -1
        return int(x)
    except (ValueError, OverflowError, TypeError):
        return -1


# ---------------------------------------------------------------------------------------------- C20
def stats_inputs(max_len, max_val):
    for n in range(1, max_len + 1):
        for seq in itertools.product(range(max_val + 1), repeat=n):
            yield list(seq)


def run_stats(samples, per_process):
    """Feed a sample sequence to the real ResourceMonitorAggregator (sampler stubbed) and read the summary it writes."""
    import jade.resource_monitor as rm
    from jade.models.submitter_params import ResourceMonitorStats
    feed = iter([0] + list(samples))       # the constructor takes one reading that is not a sample
    pfeed = iter(list(samples))

    class StubMonitor:
        def __init__(self, name):
            self.name = name

        def get_cpu_stats(self):
            return {"x": next(feed)}

        def get_process_stats(self, pid, include_children=True, recurse_children=False):
            return {"x": next(pfeed)}, []

        def clear_stale_processes(self, pids):
            pass

    orig = rm.ResourceMonitor
    rm.ResourceMonitor = StubMonitor
    base = mkbase()
    try:
        os.makedirs(os.path.join(base, "stats"))
        stats = ResourceMonitorStats(cpu=True, disk=False, memory=False, network=False, process=per_process)
        agg = rm.ResourceMonitorAggregator("b", stats)
        for _ in samples:
            agg.update_resource_stats(ids={"job": 1})
        agg.finalize(base)
        data = json.load(open(os.path.join(base, "stats", "b_resource_stats.json")))
    finally:
        rm.ResourceMonitor = orig
        shutil.rmtree(base, ignore_errors=True)
    if per_process:
        rec = next(d for d in data if d.get("name") == "job")
        count = rec["samples"]
    else:
        rec = next(d for d in data if d["type"] == "CPU" or "x" in d.get("maximum", {}))
        count = len(samples)
    avg = Fraction(rec["average"]["x"]).limit_denominator(10000)
    return {"kind": "stats", "samples": list(samples), "min": _clamp(rec["minimum"]["x"]), "max": _clamp(rec["maximum"]["x"]),
            "avgnum": avg.numerator, "avgden": avg.denominator, "count": count, "scope": "process" if per_process else "node"}


def pstats_inputs(max_len, max_val):
    """Two job processes seen in different subsets of the node's samples (jobs start late / end early), each with its own
    values; optionally the trailing sample JobQueue.wait() takes when no job is left."""
    import itertools as it
    for n in range(1, max_len + 1):
        for pres in it.product((0, 1, 2, 3), repeat=n):            # bit 0: process a present, bit 1: process b present
            if not any(p & 1 for p in pres) and not any(p & 2 for p in pres):
                continue
            vals = [(1 + (k * 2 + 1) % (max_val)) for k in range(n)]
            for trailing in (False, True):
                yield [[("a", vals[k]) if p & 1 else None, ("b", max_val - vals[k] + 1) if p & 2 else None] for k, p in enumerate(pres)], trailing


def run_pstats(pattern, trailing):
    """Per-process statistics when the processes are not all present in every sample: one observation per process."""
    import jade.resource_monitor as rm
    from jade.models.submitter_params import ResourceMonitorStats
    cur = {"k": 0}
    pids = {"a": 11, "b": 12}

    class StubMonitor:
        def __init__(self, name):
            self.name = name

        def get_cpu_stats(self):
            return {"x": 1}

        def get_process_stats(self, pid, include_children=True, recurse_children=False):
            row = pattern[cur["k"]]
            for ent in row:
                if ent is not None and pids[ent[0]] == pid:
                    return {"x": ent[1]}, []
            return None, []

        def clear_stale_processes(self, pids_):
            pass

    orig = rm.ResourceMonitor
    rm.ResourceMonitor = StubMonitor
    base = mkbase()
    try:
        os.makedirs(os.path.join(base, "stats"))
        stats = ResourceMonitorStats(cpu=True, disk=False, memory=False, network=False, process=True)
        agg = rm.ResourceMonitorAggregator("b", stats)
        for k, row in enumerate(pattern):
            cur["k"] = k
            agg.update_resource_stats(ids={ent[0]: pids[ent[0]] for ent in row if ent is not None})
        if trailing:
            agg.update_resource_stats(ids={})
        agg.finalize(base)
        data = json.load(open(os.path.join(base, "stats", "b_resource_stats.json")))
    finally:
        rm.ResourceMonitor = orig
        shutil.rmtree(base, ignore_errors=True)
    out = []
    for name in ("a", "b"):
        own = [ent[1] for row in pattern for ent in row if ent is not None and ent[0] == name]
        if not own:
            continue
        rec = next((d for d in data if d.get("name") == name), None)
        if rec is None:
            out.append({"kind": "stats", "samples": own, "min": -1, "max": -1, "avgnum": -1, "avgden": 1, "count": -1, "scope": "process"})
            continue
        avg = Fraction(rec["average"]["x"]).limit_denominator(10000)
        out.append({"kind": "stats", "samples": own, "min": _clamp(rec["minimum"]["x"]), "max": _clamp(rec["maximum"]["x"]),
                    "avgnum": avg.numerator, "avgden": avg.denominator, "count": rec["samples"], "scope": "process"})
    return out


def event_inputs(rng, count):
    """Multisets of <= 5 events over 2 names and 3 timestamps spread over <= 3 files."""
    names = ["alpha", "beta"]
    stamps = ["2024-01-01 00:00:01", "2024-01-01 00:00:02", "2024-01-01 00:00:03"]
    for _ in range(count):
        nf = rng.randint(1, 3)
        files = [[] for _ in range(nf)]
        uid = 0
        for _ in range(rng.randint(0, 5)):
            uid += 1
            files[rng.randrange(nf)].append([names[rng.randrange(2)], stamps[rng.randrange(3)], uid,
                                             rng.choice(["p", "q \" quoted", "line\\nbreak", "ünï"])])
        yield files


def run_events(files):
    """Write the events with the real StructuredLogEvent into *_events.log files, consolidate with the real
    EventsSummary, consolidate again, and read both results back."""
    from jade.events import StructuredLogEvent, EventsSummary
    base = mkbase()
    stamps = sorted({e[1] for evs in files for e in evs})
    rank = {ts: k + 1 for k, ts in enumerate(stamps)}       # TLC orders integers, not strings
    try:
        for k, evs in enumerate(files):
            with open(os.path.join(base, f"proc{k}_events.log"), "w") as f:
                for name, ts, uid, payload in evs:
                    ev = StructuredLogEvent(source=f"src{k}", category="cat", name=name, message="m", timestamp=ts,
                                            uid=uid, payload=payload)
                    f.write(str(ev) + "\n")

        def read():
            out = []
            d = os.path.join(base, "events")
            for fn in sorted(os.listdir(d)):
                recs = json.load(open(os.path.join(d, fn)))
                out.append([fn[:-5], [[r["name"], rank[r["timestamp"]], r["data"]["uid"], r["data"]["payload"], r["timestamp"]]
                                      for r in recs]])
            return out
        EventsSummary(base)
        out1 = read()
        s2 = EventsSummary(base, preload=True)
        for name, _ in out1:
            s2.list_events(name)
        out2 = read()
    finally:
        shutil.rmtree(base, ignore_errors=True)
    files_r = [[[n, rank[ts], uid, payload, ts] for n, ts, uid, payload in evs] for evs in files]
    return {"kind": "events", "files": files_r, "out": out1, "out2": out2}


def table_inputs(rng, count):
    """Resource-statistics events (consolidated into one table per name, not into event lists): <= 4 events over the names
    cpu_stats (one row per event) and process_stats (one row per monitored process: 1-3 processes per sample), 3
    timestamps, <= 3 files. Every row carries a distinct value so that tables compare as sets."""
    stamps = ["2024-01-01 00:00:01", "2024-01-01 00:00:02", "2024-01-01 00:00:03"]
    for _ in range(count):
        nf = rng.randint(1, 3)
        files = [[] for _ in range(nf)]
        uid = 0
        for _ in range(rng.randint(1, 4)):
            name = rng.choice(["cpu_stats", "process_stats", "process_stats"])
            ts = stamps[rng.randrange(3)]
            if name == "cpu_stats":
                uid += 1
                rows = [[uid]]
            else:
                rows = []
                for pn in rng.sample(["job1", "job2", "job3"], rng.randint(1, 3)):
                    uid += 1
                    rows.append([pn, uid, rng.randint(0, 3)])
            files[rng.randrange(nf)].append([name, ts, rows])
        yield files


def run_tables(files):
    """Write resource-statistics events with the real StructuredLogEvent, consolidate with the real EventsSummary, read the
    tables back through EventsSummary.get_dataframe, consolidate again and read again."""
    from jade.events import StructuredLogEvent, EventsSummary
    base = mkbase()
    stamps = sorted({e[1] for evs in files for e in evs})
    rank = {ts: k + 1 for k, ts in enumerate(stamps)}
    cols = {"cpu_stats": ["cpu_percent"], "process_stats": ["name", "rss", "cpu_percent"]}
    raised = ""
    out1 = out2 = []
    try:
        for k, evs in enumerate(files):
            with open(os.path.join(base, f"proc{k}_events.log"), "w") as f:
                for name, ts, rows in evs:
                    if name == "cpu_stats":
                        data = {"cpu_percent": rows[0][0]}
                    else:
                        data = {"processes": [dict(zip(cols[name], r)) for r in rows]}
                    ev = StructuredLogEvent(source=f"src{k}", category="ResourceUtilization", name=name, message="m",
                                            timestamp=ts, **data)
                    f.write(str(ev) + "\n")

        def read(summary):
            out = []
            for name in sorted(cols):
                df = summary.get_dataframe(name)
                if len(df.index) == 0 and not len(df.columns):
                    continue
                df = df.reset_index()
                rows = []
                for rec in df.to_dict("records"):
                    ts = str(rec["timestamp"])
                    vals = []
                    for c in cols[name]:
                        v = rec.get(c)
                        vals.append(v if isinstance(v, str) else (int(v) if v == v and v is not None else "<nan>"))
                    rows.append([rank.get(ts, 0), str(rec.get("source"))] + vals)
                out.append([name, rows])
            return out
        try:
            out1 = read(EventsSummary(base))
            out2 = read(EventsSummary(base, preload=True))
        except Exception as e:          # noqa: the code under test failed: an observation, not a harness failure
            raised = f"{type(e).__name__}: {e}"[:200]
    finally:
        shutil.rmtree(base, ignore_errors=True)
    files_r = [[[n, rank[ts], f"src{k}", rows] for n, ts, rows in evs] for k, evs in enumerate(files)]
    return {"kind": "tables", "files": files_r, "out": out1, "out2": out2, "raised": raised}


# ---------------------------------------------------------------------------------------------- C18
OUT_TEXT = {"ok": (0, "", ""), "transient": (1, "", "slurm_load_jobs error: Socket timed out"), "permanent": (2, "", "PERM: Invalid job id specified")}


def retry_inputs(max_r):
    for r in range(max_r + 1):
        for listed in (False, True):
            for outs in itertools.product(("ok", "transient", "permanent"), repeat=r + 1):
                # only sequences that differ before the point where the machine stops are distinct; keep all (small)
                yield r, listed, list(outs)


def run_retry(r, listed, outs):
    """The real run_command with a scripted process outcome sequence."""
    import jade.utils.run_command as rc_mod
    calls = {"n": 0, "sleeps": 0}

    class P:
        def __init__(self, *a, **kw):
            k = calls["n"]
            calls["n"] += 1
            o = outs[k] if k < len(outs) else "transient"      # beyond the planned sequence: overshoot is visible
            self.returncode, self._o, self._e = OUT_TEXT[o]

        def communicate(self):
            return self._o.encode(), self._e.encode()

    class Sub:
        PIPE = -1
        Popen = P

        @staticmethod
        def call(cmd, **kw):
            return P().returncode

    orig_sub, orig_sleep = rc_mod.subprocess, rc_mod.time.sleep
    rc_mod.subprocess = Sub

    class T:
        @staticmethod
        def sleep(s):
            calls["sleeps"] += 1

        time = staticmethod(__import__("time").time)
    orig_time = rc_mod.time
    rc_mod.time = T
    try:
        output = {}
        ret = rc_mod.run_command("squeue -u me", output, num_retries=r, retry_delay_s=10,
                                 error_strings=["Invalid job id specified"] if listed else None)
    finally:
        rc_mod.subprocess = orig_sub
        rc_mod.time = orig_time
    return {"kind": "retry", "r": r, "listed": listed, "outs": outs, "execs": calls["n"], "ret": ret, "sleeps": calls["sleeps"]}


OPTIONAL = ["gres", "mem", "nodes", "ntasks", "ntasks_per_node", "partition", "qos", "tmp", "reservation"]
VALUES = {"gres": "gpu:2", "mem": "5000", "nodes": 2, "ntasks": 3, "ntasks_per_node": 4, "partition": "debug", "qos": "high",
          "tmp": "10G", "reservation": "res1"}


def script_inputs():
    for mask in range(1 << len(OPTIONAL)):
        yield [p for k, p in enumerate(OPTIONAL) if mask >> k & 1]


def run_script(fields, via_manager=False):
    """The script of a batch: directly from SlurmManager, or (via_manager) the way a submitter round produces it --
    HpcManager.submit for the second of two submission groups whose SLURM settings differ (dry run: no sbatch)."""
    from jade.hpc.slurm_manager import SlurmManager
    from jade.models import HpcConfig, SlurmConfig
    base = mkbase()
    try:
        cfg = HpcConfig(hpc_type="slurm", hpc=SlurmConfig(account="acct", walltime="1:30:00", **{p: VALUES[p] for p in fields}))
        fn = os.path.join(base, "job_batch_7.sh")
        if via_manager:
            from jade.hpc.hpc_manager import HpcManager
            from jade.models import SubmitterParams, SubmissionGroup
            other = HpcConfig(hpc_type="slurm", hpc=SlurmConfig(account="other", walltime="0:05:00",
                                                                **{p: VALUES[p] for p in OPTIONAL if p not in fields and p != "gres"}))
            groups = {"first": SubmissionGroup(name="first", submitter_params=SubmitterParams(hpc_config=other)),
                      "second": SubmissionGroup(name="second", submitter_params=SubmitterParams(hpc_config=cfg))}
            mgr = HpcManager(groups, "/out dir")
            mgr.submit(base, "job_batch_7", "/out/run_batch_7.sh", "second", dry_run=True)
        else:
            mgr = SlurmManager(cfg)
            mgr.create_submission_script("job_batch_7", "/out/run_batch_7.sh", fn, "/out dir")
        lines, srun = [], ""
        for line in open(fn).read().split("\n"):
            m = re.match(r"^#SBATCH --([A-Za-z_\-]+)=(.*)$", line)
            if m:
                lines.append([m.group(1).replace("-", "_"), m.group(2)])      # either spelling of the option name
            elif line.startswith("srun "):
                srun = line[5:]
        mode = os.stat(fn).st_mode & 0o111
    finally:
        shutil.rmtree(base, ignore_errors=True)
    return {"kind": "script", "set": fields, "lines": lines, "srun": srun, "script": "/out/run_batch_7.sh", "account": "acct",
            "name": "job_batch_7", "walltime": "1:30:00", "path": "/out dir", "exec": bool(mode)}


STATES = ["BOOT_FAIL", "CANCELLED", "COMPLETED", "CONFIGURING", "COMPLETING", "DEADLINE", "FAILED", "NODE_FAIL", "OUT_OF_MEMORY",
          "PENDING", "PREEMPTED", "RUNNING", "RESV_DEL_HOLD", "REQUEUE_FED", "REQUEUE_HOLD", "REQUEUED", "RESIZING", "REVOKED",
          "SIGNALING", "SPECIAL_EXIT", "STAGE_OUT", "STOPPED", "SUSPENDED", "TIMEOUT"]
WS = [("", "  ", ""), ("   ", " ", "   "), ("\t", "\t\t", " "), ("             ", "       ", "\t")]


def squeue_inputs(rng, count):
    ids = ["100", "101", "102", "7"]
    # every state for the queried id, alone and among others, in every whitespace variant
    for st in STATES:
        for w in range(2 * len(WS)):         # each whitespace rendering with and without a final newline
            yield [["100", st]], "100", w
            yield [["101", "RUNNING"], ["100", st]], "100", w
    yield [], "100", 0
    for _ in range(count):
        n = rng.randint(0, 3)
        rows = [[i, STATES[rng.randrange(len(STATES))]] for i in rng.sample(ids, n)]
        yield rows, ids[rng.randrange(4)], rng.randrange(2 * len(WS))


def run_squeue(rows, query, w):
    from jade.hpc.slurm_manager import SlurmManager
    from jade.hpc.hpc_submitter import AsyncHpcSubmitter, HpcStatusCollector
    pre, mid, post = WS[w % len(WS)]
    text = "".join(f"{pre}{i}{mid}{st}{post}\n" for i, st in rows)
    if w >= len(WS) and text.endswith("\n"):
        text = text[:-1]                 # the last record without a final newline (a wrapper or cache that strips it)
    parsed = SlurmManager._get_statuses_from_output(text)

    class Mgr:
        def check_statuses(self):
            return parsed

    job = AsyncHpcSubmitter.create_from_id(Mgr(), HpcStatusCollector(Mgr(), 10), query)
    return {"kind": "squeue", "rows": rows, "query": query, "ws": w, "treated": bool(job.is_complete()), "parsed": len(parsed)}


def squeue_sim(rows, cmd):
    """A scheduler: what `squeue` prints for the command line `cmd` when it holds the jobs `rows` ([id, state], all of the
    calling user, named job_<id>).  Options as in squeue(1): -u/--user, -j/--jobs, -n/--name, -t/--states (a filter: only the
    listed states; 'all' = every state), -h/--noheader, --Format/-O/-o (columns jobid, name, state).  Returns (rc, out, err)."""
    import shlex
    argv = shlex.split(cmd)
    if not argv or os.path.basename(argv[0]) != "squeue":
        return 127, "", "command not found"
    opts = {"user": None, "jobs": None, "name": None, "states": None, "noheader": False, "format": ["jobid", "name", "state"]}
    short = {"-u": "user", "-j": "jobs", "-n": "name", "-t": "states", "-O": "format", "-o": "format"}
    longs = {"--user": "user", "--jobs": "jobs", "--name": "name", "--states": "states", "--Format": "format", "--format": "format"}
    i = 1
    while i < len(argv):
        a = argv[i]
        if a in ("-h", "--noheader"):
            opts["noheader"] = True
        elif a in short or a in longs:
            if i + 1 >= len(argv):
                return 1, "", f"squeue: option requires an argument -- '{a}'"
            opts[short.get(a) or longs[a]] = argv[i + 1]
            i += 1
        elif a.startswith("--") and "=" in a and a.split("=", 1)[0] in longs:
            opts[longs[a.split("=", 1)[0]]] = a.split("=", 1)[1]
        elif len(a) > 2 and a[:2] in short:
            opts[short[a[:2]]] = a[2:]
        else:
            return 1, "", f"squeue: unrecognized option '{a}'"
        i += 1
    cols = opts["format"] if isinstance(opts["format"], list) else [c.split(":")[0].strip().lower() for c in opts["format"].split(",")]
    if any(c not in ("jobid", "name", "state") for c in cols):
        return 1, "", "squeue: error: Invalid job format specification"
    sel = [[i_, st] for i_, st in rows]
    if opts["jobs"] is not None:
        want = opts["jobs"].split(",")
        if any(w not in [r[0] for r in rows] for w in want):
            return 1, "", "slurm_load_jobs error: Invalid job id specified"
        sel = [r for r in sel if r[0] in want]
    if opts["name"] is not None:
        sel = [r for r in sel if "job_" + r[0] in opts["name"].split(",")]
    if opts["states"] is not None:
        want = [x.strip().upper() for x in opts["states"].split(",")]
        if "ALL" not in want:
            sel = [r for r in sel if r[1] in want]
    val = {"jobid": lambda r: r[0], "name": lambda r: "job_" + r[0], "state": lambda r: r[1]}
    lines = []
    if not opts["noheader"]:
        lines.append("".join(f"{c.upper():<20}" for c in cols))
    for r in sel:
        lines.append("".join(f"{val[c](r):<20}" for c in cols))
    return 0, "".join(l + "\n" for l in lines), ""


def squeuecmd_inputs(rng, count):
    ids = ["100", "101", "102", "7"]
    for st in STATES:
        yield [["100", st]], "100"
        yield [["101", "RUNNING"], ["100", st]], "100"
        yield [["100", st], ["102", "PENDING"]], "100"
    yield [], "100"
    yield [["101", "RUNNING"]], "100"
    for _ in range(count):
        n = rng.randint(0, 3)
        yield [[i, STATES[rng.randrange(len(STATES))]] for i in rng.sample(ids, n)], ids[rng.randrange(4)]


def run_squeuecmd(rows, query):
    """The whole status path against a scheduler that interprets the squeue command line: the real SlurmManager
    (check_statuses / check_status) with run_command answered by squeue_sim, the real HpcStatusCollector and
    AsyncHpcSubmitter.is_complete."""
    import jade.hpc.slurm_manager as sm
    from jade.hpc.common import HpcJobStatus
    from jade.hpc.hpc_submitter import AsyncHpcSubmitter, HpcStatusCollector
    from jade.models import HpcConfig, SlurmConfig
    cmds = []

    def stub(cmd, output=None, **kw):
        cmds.append(cmd)
        rc, out, err = squeue_sim(rows, cmd)
        if output is not None:
            output["stdout"], output["stderr"] = out, err
        return rc
    orig = sm.run_command
    sm.run_command = stub
    rec = {"kind": "squeuecmd", "rows": rows, "query": query, "treated": False, "single": "", "errA": "", "errB": ""}
    try:
        mgr = sm.SlurmManager(HpcConfig(hpc_type="slurm", hpc=SlurmConfig(account="a")))
        try:
            job = AsyncHpcSubmitter.create_from_id(mgr, HpcStatusCollector(mgr, 10), query)
            rec["treated"] = bool(job.is_complete())
        except Exception as e:   # noqa
            rec["errA"] = type(e).__name__
        try:
            info = mgr.check_status(job_id=query)
            rec["single"] = {HpcJobStatus.NONE: "none", HpcJobStatus.QUEUED: "queued", HpcJobStatus.RUNNING: "running",
                             HpcJobStatus.COMPLETE: "complete", HpcJobStatus.UNKNOWN: "unknown"}[info.status]
        except Exception as e:   # noqa
            rec["errB"] = type(e).__name__
    finally:
        sm.run_command = orig
    rec["cmds"] = cmds
    return rec


def squeuemulti_inputs(rng, count):
    """One submitter round polling several tracked batches through one status collector (JobQueue.process_queue): the
    scheduler holds some of them in arbitrary states; the status query may fail (every attempt) for the whole round."""
    ids = ["100", "101", "102"]
    for st in STATES:
        for nfail in (0, 1):
            yield [["100", "RUNNING"], ["101", st]], ["100", "101"], nfail
            yield [["101", st], ["102", "PENDING"]], ["100", "101", "102"], nfail
    for _ in range(count):
        n = rng.randint(0, 3)
        rows = [[i, STATES[rng.randrange(len(STATES))]] for i in rng.sample(ids, n)]
        yield rows, rng.sample(ids, rng.randint(2, 3)), rng.choice([0, 0, 1])


def run_squeuemulti(rows, queries, nfail):
    """The batches a round tracks, asked one after the other through one HpcStatusCollector like JobQueue.process_queue does
    (the round ends at the first exception).  nfail = 1: the scheduler's answer to the status query is an error, every time."""
    import jade.hpc.slurm_manager as sm
    from jade.hpc.hpc_submitter import AsyncHpcSubmitter, HpcStatusCollector
    from jade.models import HpcConfig, SlurmConfig

    def stub(cmd, output=None, **kw):
        if nfail:
            if output is not None:
                output["stdout"], output["stderr"] = "", "slurm_load_jobs error: Unable to contact slurm controller (connect failure)"
            return 1
        rc, out, err = squeue_sim(rows, cmd)
        if output is not None:
            output["stdout"], output["stderr"] = out, err
        return rc
    orig = sm.run_command
    sm.run_command = stub
    rec = {"kind": "squeuemulti", "rows": rows, "queries": queries, "nfail": nfail, "results": [], "err": ""}
    try:
        mgr = sm.SlurmManager(HpcConfig(hpc_type="slurm", hpc=SlurmConfig(account="a")))
        coll = HpcStatusCollector(mgr, 10)
        try:
            for qid in queries:
                job = AsyncHpcSubmitter.create_from_id(mgr, coll, qid)
                rec["results"].append([qid, bool(job.is_complete())])
        except Exception as e:   # noqa
            rec["err"] = type(e).__name__
    finally:
        sm.run_command = orig
    return rec


SUBMIT = {"ok": (0, "Submitted batch job 123\n"), "ok_extra": (0, "sbatch: note\nSubmitted batch job 45 on cluster x\n"),
          "empty": (0, ""), "garbage": (0, "error: something else 99\n"), "nonum": (0, "Submitted batch job \n"),
          "rc1": (1, "Submitted batch job 7\n"), "rc1_empty": (1, "")}


def run_submit(cls):
    import jade.hpc.slurm_manager as sm
    from jade.enums import Status
    from jade.models import HpcConfig, SlurmConfig
    rc, text = SUBMIT[cls]

    def stub(cmd, output=None, **kw):
        output["stdout"] = text
        output["stderr"] = "" if rc == 0 else "sbatch: error"
        return rc
    orig = sm.run_command
    sm.run_command = stub
    try:
        mgr = sm.SlurmManager(HpcConfig(hpc_type="slurm", hpc=SlurmConfig(account="a")))
        result, job_id, err = mgr.submit("x.sh")
    finally:
        sm.run_command = orig
    return {"kind": "sbatch", "cls": cls, "result": "good" if result == Status.GOOD else "error",
            "jobid": str(job_id) if (job_id is not None and result == Status.GOOD) else ""}


# ---------------------------------------------------------------------------------------------- C19
SYM = {"a": "a", "c": "c", "s": " ", "t": "\t", "q": "'", "d": '"', "b": "\\", "x": "$", "h": "#"}
INV = {v: k for k, v in SYM.items()}
NAMES = ["j1", "job_2", "a.b-c", "X"]


def launch_inputs(max_len, rng=None, sample_last=None):
    """Every command string up to max_len over the 9-symbol alphabet (the last length optionally sampled), crossed with
    names, append flags and exit codes by rotation (each value of each dimension occurs often; the tokenizer dimension is
    the exhaustive one)."""
    k = 0
    rcs = [0, 1, 2, 127, 128, 255, 3, 42]
    for n in range(1, max_len + 1):
        strings = itertools.product("acstqdbxh", repeat=n)
        if n == max_len and sample_last is not None:
            allp = list(strings)
            strings = rng.sample(allp, min(sample_last, len(allp)))
        for s in strings:
            k += 1
            yield list(s), NAMES[k % 4], bool(k % 2), bool((k // 2) % 2), rcs[k % 8] if k % 5 else (k * 7) % 256


def run_launch(sym_cmd, name, appname, appout, rc):
    import jade.jobs.async_cli_command as acc
    from jade.extensions.generic_command import GenericCommandParameters
    from jade.extensions.generic_command.generic_command_execution import GenericCommandExecution
    from jade.exceptions import InvalidConfiguration
    from harness import project
    text = "".join(SYM[c] for c in sym_cmd)
    rec = {"kind": "launch", "cmd": list(sym_cmd), "name": name, "appname": appname, "appout": appout, "rc": rc, "hpcid": "555",
           "raised": False, "base": [], "extra": [], "envout": "", "envname": "", "so": "", "se": "", "row": ["", -1, ""],
           "outdir": ""}
    try:
        job = GenericCommandParameters(name=name, command=text, append_job_name=appname, append_output_dir=appout)
        job.job_id = 1
    except Exception:
        rec["cmd"] = []        # an empty command is rejected by the model: nothing to launch
        return rec
    stored = job.command
    if any(ch not in INV for ch in stored):
        rec["cmd"] = []
        return rec
    rec["cmd"] = [INV[ch] for ch in stored]     # the configured command is what the model holds (outer whitespace stripped)
    base = mkbase()
    out = os.path.join(base, "out")
    for d in ("job-stdio", "results", "job-outputs"):
        os.makedirs(os.path.join(out, d))
    rec["outdir"] = out
    captured = {}

    class P:
        def __init__(self, argv, env=None, stdout=None, stderr=None, **kw):
            captured.update(argv=list(argv), env=dict(env or {}), so=getattr(stdout, "name", ""), se=getattr(stderr, "name", ""))
            self.returncode = None
            self.pid = 4242

        def poll(self):
            self.returncode = rc
            return rc

    class Sub:
        Popen = P
    orig = acc.subprocess
    acc.subprocess = Sub
    # every third launch happens inside another JADE job (a job whose command runs a JADE submission, or a batch started
    # by sbatch --export=ALL from a shell that has the variables): the launcher's own environment already carries
    # JADE_JOB_NAME / JADE_RUNTIME_OUTPUT of the outer job
    inherited = (len(sym_cmd) + rc) % 3 == 0
    saved = {k: os.environ.get(k) for k in ("JADE_JOB_NAME", "JADE_RUNTIME_OUTPUT")}
    if inherited:
        os.environ["JADE_JOB_NAME"] = "outer_workflow"
        os.environ["JADE_RUNTIME_OUTPUT"] = "/outer/output"
    rec["inherited"] = inherited
    try:
        cli = GenericCommandExecution.generate_command(job, os.path.join(out, "job-outputs"), None)
        cmd = acc.AsyncCliCommand(job, cli, out, 3, True, "555")
        try:
            cmd.run()
        except (ValueError, IndexError, OSError):
            rec["raised"] = True
            return rec
        cmd.is_complete()
        argv = captured["argv"]
        nextra = int(appname) + int(appout)
        rec["base"] = [[INV.get(ch, "?") for ch in a] for a in (argv[:len(argv) - nextra] if nextra else argv)]
        rec["extra"] = argv[len(argv) - nextra:] if nextra else []
        rec["envout"] = captured["env"].get("JADE_RUNTIME_OUTPUT", "")
        rec["envname"] = captured["env"].get("JADE_JOB_NAME", "")
        rec["so"] = os.path.basename(str(captured["so"]))
        rec["se"] = os.path.basename(str(captured["se"]))
        rows, ok = project.read_rows_file(os.path.join(out, "results", "results_batch_3.csv"))
        if rows and len(rows) == 1:
            try:
                rec["row"] = [rows[0][0], int(rows[0][1]), rows[0][5]]
            except ValueError:
                pass
    finally:
        acc.subprocess = orig
        for k_, v_ in saved.items():
            if v_ is None:
                os.environ.pop(k_, None)
            else:
                os.environ[k_] = v_
        shutil.rmtree(base, ignore_errors=True)
    return rec


# ---------------------------------------------------------------------------------------------- C17
def config_inputs(rng, count):
    """Abstract configurations over the public job and group models: valid bases and single injected invalidities."""
    import copy
    out = []
    for _ in range(count):
        n = rng.randint(1, 3)
        auto = rng.random() < 0.3                  # names left unset: JADE uses the job id
        names = [str(k + 1) for k in range(n)] if auto else rng.sample(["a", "b", "c", "job-1", "x.y"], n)
        ng = rng.randint(1, 3)
        gnames = ["default"] if ng == 1 and rng.random() < 0.5 else [f"g{k}" for k in range(ng)]
        maxnodes, poll, hpc = rng.choice([0, 2, 5]), rng.choice([10, 30]), "slurm"
        groups = [{"name": g, "hpc": hpc, "maxnodes": maxnodes, "poll": poll, "wall": rng.choice([10, 60, 60, 1440, 1800, 2880])} for g in gnames]     # minutes; a day and more included
        jobs = []
        hows = ["ctor", "ctor", "attr", "set", "attr-then-set"]
        for k, nm in enumerate(names):
            others = [x for x in names if x != nm]
            blk = sorted(rng.sample(others, rng.randint(0, len(others))))
            g = gnames[rng.randrange(len(gnames))]
            wall = next(x["wall"] for x in groups if x["name"] == g)
            jobs.append({"name": nm, "blk": blk, "grp": g, "est": rng.choice([0, 0, 1, wall]), "flag": rng.random() < 0.5,
                         "intblk": auto and rng.random() < 0.5, "appn": rng.random() < 0.3, "appo": rng.random() < 0.3,
                         "how": hows[rng.randrange(len(hows))]})
        base = {"jobs": jobs, "groups": groups, "auto": auto,
                "hooks": [rng.random() < 0.4 for _ in range(4)]}
        out.append(base)
        # single injected invalidities
        muts = []
        m = copy.deepcopy(base); m["jobs"][rng.randrange(n)]["blk"] = ["99" if auto else "nosuchjob"]; muts.append(m)
        if not auto:
            # a blocker that is another job's numeric id, not its name (names are explicit here: no job is called "1")
            m = copy.deepcopy(base); m["jobs"][n - 1]["blk"] = ["1"]; m["jobs"][n - 1]["intblk"] = rng.random() < 0.5; muts.append(m)
        if n >= 2 and not auto:
            m = copy.deepcopy(base); m["jobs"][1]["name"] = m["jobs"][0]["name"]; m["jobs"][1]["blk"] = []; m["jobs"][0]["blk"] = []
            for j in m["jobs"]:
                j["blk"] = [b for b in j["blk"] if b in {x["name"] for x in m["jobs"]}]
            muts.append(m)
        m = copy.deepcopy(base); m["jobs"][rng.randrange(n)]["grp"] = "nogroup"; muts.append(m)
        if ng >= 2:
            m = copy.deepcopy(base); m["groups"][1]["maxnodes"] = maxnodes + 1; muts.append(m)
            m = copy.deepcopy(base); m["groups"][1]["poll"] = poll + 5; muts.append(m)
            m = copy.deepcopy(base); m["groups"][1]["hpc"] = "fake" if hpc == "slurm" else "slurm"; muts.append(m)
            m = copy.deepcopy(base); old = m["groups"][1]["name"]; m["groups"][1]["name"] = m["groups"][0]["name"]
            for j in m["jobs"]:
                if j["grp"] == old:
                    j["grp"] = m["groups"][0]["name"]
            muts.append(m)
        k = rng.randrange(n)
        m = copy.deepcopy(base); m["jobs"][k]["est"] = next(x["wall"] for x in groups if x["name"] == m["jobs"][k]["grp"]) + 1
        muts.append(m)
        if n >= 2:
            # the file lists the jobs in another order than they were added (what `shuffle_jobs()` / `jade config filter` with
            # reordered indexes write): still a valid configuration, and the load must keep names, order and dependencies
            perm = list(range(n))
            while perm == list(range(n)):
                rng.shuffle(perm)
            m = copy.deepcopy(base); m["perm"] = perm; muts.append(m)
            if auto:
                # a file in which two unnamed jobs carry the same id (hand-edited / merged files): duplicate names
                m = copy.deepcopy(base); m["dupid"] = True
                for j in m["jobs"]:
                    j["blk"] = []
                muts.append(m)
        out += muts
    return out


def run_config(c):
    """Build the configuration with the public models, dump it, load it back, and submit it with a counting sbatch stub."""
    import jade.hpc.slurm_manager as sm
    import jade.hpc.fake_manager as fm
    from jade.exceptions import InvalidConfiguration, InvalidParameter
    from jade.extensions.generic_command import GenericCommandConfiguration, GenericCommandParameters
    from jade.jobs.job_configuration_factory import create_config_from_file
    from jade.jobs.job_submitter import JobSubmitter
    from jade.models import SubmitterParams, HpcConfig, SlurmConfig, FakeHpcConfig, SubmissionGroup
    cjobs = [c["jobs"][k] for k in c["perm"]] if c.get("perm") else c["jobs"]
    cfgrec = {"jobs": [{"name": (cjobs[0]["name"] if c.get("dupid") and i == 1 else j["name"]), "blk": j["blk"], "grp": j["grp"], "est": j["est"]}
                       for i, j in enumerate(cjobs)],
              "groups": [{k: g[k] for k in ("name", "hpc", "maxnodes", "poll", "wall")} for g in c["groups"]]}
    rec = {"kind": "config", "cfg": cfgrec, "accepted": False, "error": "", "sbatch": 0, "dumped": False, "orig": [], "loaded": [], "mem": "skip"}
    base = mkbase()
    count = {"sbatch": 0}
    import contextlib
    import io
    sink = contextlib.redirect_stdout(io.StringIO())
    sink.__enter__()

    def stub(cmd, output=None, **kw):
        if cmd.startswith("sbatch"):
            count["sbatch"] += 1
            output["stdout"] = f"Submitted batch job {900 + count['sbatch']}\n"
            output["stderr"] = ""
        elif output is not None:
            output["stdout"] = ""
            output["stderr"] = ""
        return 0
    orig_rc = sm.run_command
    sm.run_command = stub
    orig_fsub = fm.FakeManager.submit

    def fake_submit(self, filename):
        from jade.enums import Status
        count["sbatch"] += 1
        return Status.GOOD, str(900 + count["sbatch"]), None
    fm.FakeManager.submit = fake_submit

    def proj(config):
        d = config.serialize()
        jobs = [[j["name"] if j.get("name") is not None else str(j["job_id"]), j["command"], sorted(str(b) for b in j["blocked_by"]),
                 bool(j["cancel_on_blocking_job_failure"]), j["submission_group"], j.get("estimated_run_minutes") or 0,
                 bool(j.get("append_job_name", False)), bool(j.get("append_output_dir", False))] for j in d["jobs"]]
        groups = [[g["name"], g["submitter_params"]["hpc_config"]["hpc_type"].value if hasattr(g["submitter_params"]["hpc_config"]["hpc_type"], "value")
                   else str(g["submitter_params"]["hpc_config"]["hpc_type"]), g["submitter_params"]["max_nodes"] or 0,
                   g["submitter_params"]["poll_interval"], g["submitter_params"]["per_node_batch_size"],
                   bool(g["submitter_params"]["try_add_blocked_jobs"])] for g in d["submission_groups"]]
        hooks = [d.get("setup_command") or "", d.get("teardown_command") or "", d.get("node_setup_command") or "",
                 d.get("node_teardown_command") or ""]
        return [jobs, groups, hooks]
    try:
        try:
            hk = c["hooks"]
            config = GenericCommandConfiguration(setup_command="true" if hk[0] else None, teardown_command="true t1" if hk[1] else None,
                                                 node_setup_command="true n1" if hk[2] else None,
                                                 node_teardown_command="true n2" if hk[3] else None)
            for g in c["groups"]:
                wt = f"{g['wall'] // 60}:{g['wall'] % 60:02d}:00"
                if g["hpc"] == "slurm":
                    hpc = HpcConfig(hpc_type="slurm", hpc=SlurmConfig(account="acct", walltime=wt))
                else:
                    hpc = HpcConfig(hpc_type="fake", hpc=FakeHpcConfig(walltime=wt))
                sp = SubmitterParams(hpc_config=hpc, max_nodes=(g["maxnodes"] or None), poll_interval=g["poll"], per_node_batch_size=2,
                                     generate_reports=False, resource_monitor_type="none")
                config.append_submission_group(SubmissionGroup(name=g["name"], submitter_params=sp))
            for j in c["jobs"]:
                blk = [int(b) for b in j["blk"]] if j.get("intblk") else list(j["blk"])
                how = j.get("how", "ctor")          # how the dependencies are given: constructor / attribute / setter
                params = GenericCommandParameters(
                    name=(None if c["auto"] else j["name"]), command=f"echo {j['name']} 'x y'", blocked_by=(blk if how == "ctor" else []),
                    cancel_on_blocking_job_failure=j["flag"], estimated_run_minutes=(j["est"] or None),
                    submission_group=j["grp"], append_job_name=j["appn"], append_output_dir=j["appo"])
                if how == "attr":
                    params.blocked_by = set(blk)
                elif how == "attr-then-set":
                    params.blocked_by = {"placeholder"}
                    params.set_blocking_jobs(set(str(b) for b in blk))
                elif how == "set":
                    params.set_blocking_jobs(set(str(b) for b in blk))
                config.add_job(params)
            rec["orig"] = proj(config)
            path = os.path.join(base, "config.json")
            config.dump(path)
            if c.get("perm") or c.get("dupid"):
                with open(path) as fh:
                    doc = json.load(fh)
                if c.get("perm"):
                    doc["jobs"] = [doc["jobs"][k] for k in c["perm"]]
                    rec["orig"] = [[rec["orig"][0][k] for k in c["perm"]]] + rec["orig"][1:]
                else:
                    doc["jobs"][1]["job_id"] = doc["jobs"][0]["job_id"]
                with open(path, "w") as fh:
                    json.dump(doc, fh, indent=2)
            loaded = create_config_from_file(path)
            rec["loaded"] = proj(loaded)
            rec["dumped"] = True
            JobSubmitter.run_submit_jobs(loaded, os.path.join(base, "out"))
            rec["accepted"] = True
            if not c.get("perm") and not c.get("dupid"):
                # the configuration object itself (not only its reloaded copy) passes the checks a submitter runs
                try:
                    config.check_submission_groups()
                    config.check_job_dependencies()
                    config.check_job_runtimes()
                    rec["mem"] = "ok"
                except Exception as e:   # noqa
                    rec["mem"] = type(e).__name__
        except (InvalidConfiguration, InvalidParameter) as e:
            rec["error"] = type(e).__name__
        except Exception as e:   # noqa
            rec["error"] = type(e).__name__
    finally:
        sm.run_command = orig_rc
        fm.FakeManager.submit = orig_fsub
        rec["sbatch"] = count["sbatch"]
        sink.__exit__(None, None, None)
        import logging
        logging.shutdown()
        shutil.rmtree(base, ignore_errors=True)
    return rec


# ---------------------------------------------------------------------------------------------- node queue (C02/C04/C06)
def explore_nodequeue(inp):
    """All exit schedules of one input on the real JobQueue/AsyncCliCommand; returns the list of final observations."""
    from harness import nodequeue
    return nodequeue.explore(inp)


def run_nodequeue(inp, sched):
    from harness import nodequeue
    o = nodequeue.run_queue(inp, sched)
    if o["end"] == "more" and not o["alive"] and not o["rerun"] and sched[-2:] == [[], []]:
        o["end"] = "stuck"
    o.pop("alive", None)
    o.pop("rerun", None)
    return o


def random_nodequeue(seed, k):
    """k random exit schedules of one random larger input."""
    import random
    from harness import nodequeue
    inp = nodequeue.random_input(random.Random(seed))
    return [nodequeue.random_run(inp, seed * 101 + i) for i in range(k)]
