"""Model -> code conformance: replay a JadeImpl behaviour (sequence of action labels produced by
TLC) as a schedule of the real code, then compare the events the model emitted with the events
observed.  A difference on the unchanged tree means the model misrepresents the code (and is
corrected); on a changed tree it is reported as model drift, never as a violation."""
import json
import os
import re

from harness import tracecheck
from harness.run import Run, fifo_chooser

CLUSTER = "cluster_config.json.lock"


def parked(p):
    """Classify the request a process is parked at."""
    if p is None or not p.alive:
        return ("dead",)
    r = p.req
    op = r["op"]
    if op in ("lock_try", "lock_blocked"):
        base = os.path.basename(r["path"])
        if base == CLUSTER:
            return ("lock", "cluster")
        if base.startswith("processed_results"):
            return ("lock", "processed")
        m = re.match(r"results_batch_(\d+)\.csv\.lock", base)
        if m:
            return ("lock", "node", int(m.group(1)))
        return ("lock", base)
    if op == "popen":
        a0 = os.path.basename(r["argv"][0])
        if "JADE_JOB_NAME" in (r.get("env") or {}):
            return ("popen", "job")
        return ("popen", a0)
    return (op,)


class Divergence(Exception):
    pass


class ModelReplay:
    def __init__(self, scn, path, maxb, debug=False):
        self.scn = scn
        self.path = path
        self.maxb = maxb
        self.r = Run(scn, seed=0, debug=debug)
        self.w = self.r.w
        self.login = None
        self.canceller = None
        self.diverged = None
        self.sync_index = 0

    # ---- mapping model slots to real processes
    def hid_of(self, b):
        for hid, rec in self.w.batches.items():
            if rec["b"] == b:
                return hid
        raise Divergence(f"batch {b} unknown to the simulated HPC")

    def proc_of(self, slot):
        if slot == 0:
            return self.login
        if slot == 2 * self.maxb + 1:
            return self.canceller
        if slot == 2 * self.maxb + 2:
            cands = [p for p in self.w.procs if p.parent is not None and self.w.handles[p.parent].get("owner") == self.canceller.pid]
            if not cands:
                raise Divergence("cancel-jobs has not started its try-submit-jobs")
            return cands[-1]
        if slot <= self.maxb:
            hid = self.hid_of(slot)
            cands = [p for p in self.w.procs if p.batch == hid and p.label == "run-jobs"]
        else:
            hid = self.hid_of(slot - self.maxb)
            cands = [p for p in self.w.procs if p.batch == hid and p.label == "try-submit-jobs"]
        if not cands:
            raise Divergence(f"no process for slot {slot}")
        return cands[-1]

    def step(self, p):
        self.w.do(("step", p.pid))

    def expect(self, p, *cls):
        got = parked(p)
        if got[:len(cls)] != cls:
            raise Divergence(f"process {p.pid} ({p.label}) parked at {got}, model expects {cls}")

    # ---- one model action
    def apply(self, lbl):
        name, a, x = lbl
        w = self.w
        if name in ("MarkerTouch", "NextGroup", "MarkerRemove", "End"):
            return
        if name == "StartBatch":
            hid = self.hid_of(a)
            if w.batches[hid]["state"] != "PENDING":
                raise Divergence(f"batch {a} is not pending")
            w.do(("start", hid))
            return
        if name == "JobExit":
            hs = [h for h, hd in w.handles.items() if hd["type"] == "job" and hd["state"] == "running" and hd["job"] == a]
            if not hs:
                raise Divergence(f"job {a} is not running")
            w.do(("jobexit", hs[0]))
            return
        if name == "UserTry":
            self.login = self.r.user("try-submit-jobs", self.w.out)
            return
        if name == "UserResubmit":
            flags = ["--failed" if x & 1 else "--no-failed", "--missing" if x & 2 else "--no-missing"] + (["--successful"] if x & 4 else [])
            if a == 1:        # -s FILE with the scenario's replacement parameters
                from harness import run as _run
                flags += ["-s", _run.regroup_file(self.r, self.r.scn, self.r.scn["regroup"], 0)]
            self.login = self.r.user("resubmit-jobs", self.w.out, *flags)
            return
        if name == "UserCancel":
            self.canceller = self.r.user("cancel-jobs", self.w.out, host="login")
            return
        if name == "NodeKill":
            hid = self.hid_of(a)
            if w.batches[hid]["state"] != "RUNNING":
                raise Divergence(f"batch {a} is not running")
            w.do(("nodekill", hid, "kill"))
            return
        if name == "Kill":
            p = self.proc_of(a)
            if not p.alive:
                raise Divergence(f"process of slot {a} already ended")
            w.do(("kill", p.pid, "model"))
            return
        if name in ("SubmitBatchFail", "PollFail"):
            p = self.proc_of(a)
            cmd = "sbatch" if name == "SubmitBatchFail" else "squeue"
            if cmd == "sbatch":
                w.sbatch_plan[str(x)] = 7
            else:
                w.squeue_fail = 7
            for k in range(7):            # num_retries=6: seven attempts, a sleep between two of them
                self.expect(p, "popen", cmd)
                self.step(p)
                if k < 6:
                    self.expect(p, "sleep")
                    self.step(p)
            return
        p = self.proc_of(a)
        if name == "RPromote":
            self.expect(p, "lock", "cluster")
            self.step(p)
        elif name == "RReset":
            self.expect(p, "lock", "processed")
            self.step(p)
        elif name in ("Promote", "CheckComplete", "MarkComplete", "Demote"):
            self.expect(p, "lock", "cluster")
            self.step(p)
        elif name == "CPromote":
            self.expect(p, "lock", "cluster")
            self.step(p)
            if not x:                 # refused: cancel-jobs sleeps a second and tries again
                self.expect(p, "sleep")
                self.step(p)
        elif name == "CGiveUp":
            # the remaining attempts (one second apart) are all refused: nobody else moves meanwhile
            guard = 0
            while p.alive and guard < 400:
                self.step(p)
                guard += 1
            if p.alive:
                raise Divergence(f"cancel-jobs {p.pid} did not give up: {parked(p)}")
        elif name in ("CMark", "CDemote"):
            self.expect(p, "lock", "cluster")
            self.step(p)
        elif name == "CScancel":
            if x:
                self.expect(p, "popen", "scancel")
                self.step(p)
        elif name == "CTrySpawn":
            self.expect(p, "sleep")
            self.step(p)
            self.expect(p, "popen", "jade")
            self.step(p)
        elif name == "CEnd":
            self.expect(p, "wait")
            self.step(p)
            if p.alive:
                raise Divergence(f"cancel-jobs {p.pid} did not end: {parked(p)}")
        elif name == "Persist":
            if x:
                self.expect(p, "lock", "cluster")
                self.step(p)
        elif name == "Poll":
            if x:
                self.expect(p, "popen", "squeue")
                self.step(p)
        elif name in ("Glob", "Summary"):
            self.expect(p, "lock", "processed")
            self.step(p)
        elif name == "Move":
            self.expect(p, "lock", "node")       # the file order is the glob's, not the model's choice
            self.step(p)
        elif name == "CancelPass":
            for _ in range(x):
                self.expect(p, "lock", "processed")
                self.step(p)
        elif name == "SubmitBatch":
            if x:
                self.expect(p, "popen", "sbatch")
                self.step(p)
        elif name in ("NodeSetup", "NodeTeardown", "Teardown"):
            cmd = {"NodeSetup": "vnsetup", "NodeTeardown": "vnteardown", "Teardown": "vteardown"}[name]
            guard = 0
            while name == "NodeTeardown" and parked(p) == ("sleep",) and guard < 5:
                self.step(p)          # the last sleep of JobQueue.wait after the final poll
                guard += 1
            self.expect(p, "popen", cmd)
            self.step(p)
        elif name == "NodeNoTry":
            pass                      # --no-distributed-submitter: nothing visible happens between the last poll and the exit
        elif name == "NodeEnd" and not self.scn.get("dist", True):
            guard = 0
            while p.alive and guard < 6:
                if parked(p)[0] != "sleep":
                    raise Divergence(f"runner {p.pid} (no distributed submitter) parked at {parked(p)} before its exit")
                self.step(p)
                guard += 1
            if p.alive:
                raise Divergence(f"runner {p.pid} did not end: {parked(p)}")
        elif name == "NodeEnd":
            self.expect(p, "wait")
            self.step(p)
            if p.alive:
                raise Divergence(f"runner {p.pid} did not end: {parked(p)}")
        elif name == "NodeInit":
            for _ in range(x):
                self.expect(p, "popen", "job")
                self.step(p)
            self.expect(p, "sleep")
        elif name == "NodePoll":
            self.expect(p, "sleep")
            self.step(p)
            n = 0
            while parked(p)[:2] in (("lock", "node"), ("popen", "job")):
                self.step(p)
                n += 1
            if n != x:
                raise Divergence(f"NodePoll of {p.pid}: {n} appends+launches, model has {x}")
        elif name == "NodeTry":
            guard = 0
            while parked(p) != ("wait",):
                if not p.alive or guard > 20:
                    raise Divergence(f"runner {p.pid} did not reach its try-submit-jobs: {parked(p)}")
                if parked(p)[0] not in ("sleep", "popen"):
                    raise Divergence(f"runner {p.pid} parked at {parked(p)} before try-submit-jobs")
                self.step(p)
                guard += 1
        else:
            raise Divergence(f"unknown model action {name}")

    def run(self):
        """Returns (recorded trace, divergence or None)."""
        try:
            self.login = self.r.submit()
            # the model starts right after Cluster.create / ResultsAggregator.create (+ setup command)
            guard = 0
            while not any(e["e"] == "rows" for e in self.w.trace):
                self.step(self.login)
                guard += 1
                if guard > 20:
                    raise Divergence("submit-jobs did not create the results file")
            while parked(self.login)[0] == "popen" and parked(self.login)[1].startswith("v"):
                self.step(self.login)
            self.sync_index = len(self.w.trace)
            for k, lbl in enumerate(self.path):
                try:
                    self.apply(lbl)
                except Divergence as d:
                    self.diverged = {"step": k, "label": lbl, "why": str(d)}
                    break
            if self.diverged:
                # fallback: complete the run anyway so that the real trace is still judged by the monitor
                self.r.drain(fifo_chooser)
                self.r.recover(chooser=fifo_chooser)
            else:
                left = [m for m in self.w.enabled()]
                if left:
                    self.diverged = {"step": len(self.path), "label": None,
                                     "why": f"model behaviour ended but the real world can still move: {left[:4]}"}
                    self.r.drain(fifo_chooser)
                    self.r.recover(chooser=fifo_chooser)
            self.w.ev(e="end", recoveries=self.r.recoveries)
        finally:
            tr = self.r.finish()
        tr["driver"] = ["model_replay", self.scn, self.path, self.maxb]
        return tr, self.diverged


# ---------------------------------------------------------------- comparison of emitted and observed events
def _row3(r, idmap):
    return [r[0], str(r[1]) if str(r[1]) in ("0",) else "nz", r[2]]


def norm(e, idmap):
    k = e["e"]
    if k == "cfgbatch":
        return ["cfgbatch", e["b"], e["jobs"], [sorted(x) for x in e["hb"]], e["rewrite"]]
    if k == "sbatch":
        return ["sbatch", e["b"], e["ok"], e["jobs"], [sorted(x) for x in e["hb"]], e["active"], e["opts"], e["run"]]
    if k == "launch":
        return ["launch", e["job"], e["b"], e["live"], sorted(e["rows"])]
    if k == "jobexit":
        return ["jobexit", e["job"], e["rc"]]
    if k in ("append", "appended"):
        return [k] + _row3(e["row"], idmap)
    if k == "collected":
        return ["collected", sorted(_row3(r, idmap) for r in e["rows"])]
    if k == "status":
        return ["status", e["pid"], e["sub"], e["nsub"], e["ndone"], e["complete"], e["canceled"], e["cver"], e["jver"],
                sorted(e["st"].items()), sorted((j, sorted(v)) for j, v in e["rem"].items()), len(e["ids"]), e["bidx"],
                e["marker"], sorted(e["rows"])]
    if k == "summary":
        return ["summary", sorted([r[0], "0" if str(r[1]) == "0" else "nz", r[2]] for r in e["res"]), sorted(e["missing"]),
                list(e["tally"])]
    if k == "promote":
        return ["promote", e["pid"], e["host"], e["ok"], e["before"], e["after"]]
    if k == "hpc":
        return ["hpc", e["what"], e["b"], e["active"]]
    if k == "proc":
        return ["proc", e["pid"], e["k"], e["nested"], e["b"]]
    if k == "exit":
        return ["exit", e["pid"], e["k"], e["code"], e["exc"]]
    if k == "squeue":
        return ["squeue", e["ok"]]
    if k in ("kill", "nodekill"):
        return [k, e["pid"]]
    if k == "scancel":
        return ["scancel", e["b"]]
    if k == "hook":
        return ["hook", e["which"], e["b"], e["envok"], e["grp"], sorted(e["rows"]), e["live"], e["rc"]]
    return None


def compare(model_events, tr, sync_index):
    """First difference between the model's emitted events and the observed ones (None if equal)."""
    real = []
    for e in tr["ev"][sync_index:]:
        x = tracecheck.encode_event(e)
        if x is None or x["e"] in ("rows", "end"):
            continue
        n = norm(x, None)
        if n is not None:
            real.append(n)
    model = []
    for e in model_events:
        if e["e"] in ("rows", "end"):
            continue
        n = norm(e, None)
        if n is not None:
            model.append(n)
    # config_batch_N.json is written by the submitter before it parks at sbatch; nobody reads it before the batch
    # starts, so its write commutes with the other processes' events: compared as a separate sequence
    def squeeze(xs):
        # consecutive refused promotions of one process (cancel-jobs' one-second retries) count as one: the model abstracts
        # from their number
        out = []
        for x in xs:
            if out and x[0] == "promote" and x[3] is False and out[-1] == x:
                continue
            out.append(x)
        return out
    for name, sel in (("events", lambda x: x[0] != "cfgbatch"), ("cfgbatch", lambda x: x[0] == "cfgbatch")):
        ms = squeeze([x for x in model if sel(x)])
        rs = squeeze([x for x in real if sel(x)])
        for i, (a, b) in enumerate(zip(ms, rs)):
            if a != b:
                return {"seq": name, "index": i, "model": a, "real": b}
        if len(ms) != len(rs):
            i = min(len(ms), len(rs))
            return {"seq": name, "index": i, "model": ms[i] if i < len(ms) else None, "real": rs[i] if i < len(rs) else None}
    return None


_BEH = re.compile(r'^<<"BEHAVIOUR", "(.*)">>\s*$')


def parse_behaviours(tlc_out):
    out = []
    for line in tlc_out.split("\n"):
        m = _BEH.match(line.strip())
        if m:
            out.append(json.loads(json.loads('"' + m.group(1) + '"')))
    return out
