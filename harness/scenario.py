"""Scenario generation and instantiation with jade's public models."""
import json
import os
import random

WALL_MIN = 10      # every group's walltime is 0:10:00


def ref_outcome(scn):
    """Evaluate the DAG in topological order with the planned exit codes (the C03 reference).
    Jobs on a dependency cycle (and jobs waiting for them) have no outcome: 'missing'."""
    blk, flag, rc = scn["blk"], scn["flag"], scn["rc"]
    out = {}
    state = {}

    def ev(j):
        if j in out:
            return out[j]
        if state.get(j) == "visiting":
            return "cycle"
        state[j] = "visiting"
        subs = [ev(k) for k in blk[j]]
        state[j] = "done"
        if any(s in ("cycle", "missing") for s in subs):
            # a flagged job with a failed/canceled blocker is canceled even if another blocker is missing
            if flag[j] and any(s in ("failed", "canceled") for s in subs):
                out[j] = "canceled"
            else:
                out[j] = "missing"
        elif flag[j] and any(s != "successful" for s in subs):
            out[j] = "canceled"
        else:
            out[j] = "successful" if int(rc.get(j, 0)) == 0 else "failed"
        return out[j]

    for j in scn["jobs"]:
        ev(j)
    # members of a cycle
    for j in scn["jobs"]:
        if out.get(j) == "cycle":
            out[j] = "missing"
    return out


def gen(rng, n_min=2, n_max=6, groups_max=1, allow_time=True, allow_local=False, cyc=False, ext_names=None,
        squeue_faults=0.0, squeue_lies=0.0, onehost=0.0, nodist=0.0, squeue_odd=0.0):
    n = rng.randint(n_min, n_max)
    names = [chr(65 + i) for i in range(n)] if n <= 26 else [f"J{i}" for i in range(n)]
    order = names[:]
    rng.shuffle(order)            # hidden topological order; listing order = names
    pos = {x: i for i, x in enumerate(order)}
    dens = rng.choice([0.15, 0.35, 0.6])
    blk, flag, rc = {}, {}, {}
    for x in names:
        cands = [y for y in names if pos[y] < pos[x]]
        blk[x] = sorted(y for y in cands if rng.random() < dens)
        flag[x] = rng.random() < 0.5
        rc[x] = rng.choice([0, 0, 0, 1, 2]) if rng.random() < 0.45 else 0
    ng = rng.randint(1, groups_max)
    local = allow_local and rng.random() < 0.25
    if local:
        ng = 1
    maxnodes = rng.choice([1, 2, 3, 0])
    groups = []
    for gi in range(ng):
        tb = allow_time and rng.random() < 0.3
        procs = rng.randint(1, 3) if (tb or rng.random() < 0.7) else 0
        groups.append({
            "name": f"g{gi}" if ng > 1 else "default",
            "tb": tb,
            "size": 0 if tb else rng.randint(1, 3),
            "tryadd": rng.random() < 0.5,
            "procs": procs,
            "dry": False,
            "partition": rng.choice(["", "short", "debug"]),
            "qos": rng.choice(["", "high"]),
            "mem": rng.choice(["", "5000"]),
            "verbose": rng.random() < 0.2,
        })
    grp = {x: groups[rng.randrange(ng)]["name"] for x in names}
    est = {}
    for x in names:
        g = next(g for g in groups if g["name"] == grp[x])
        est[x] = rng.randint(1, WALL_MIN) if g["tb"] else (rng.randint(1, WALL_MIN) if rng.random() < 0.2 else 0)
    scn = {
        "jobs": names, "blk": blk, "flag": flag, "rc": rc, "est": est, "grp": grp, "groups": groups,
        "maxnodes": maxnodes, "mode": "local" if local else "hpc", "cpus": rng.randint(1, 4),
        "locklib": "never", "hooks": {}, "hook_rc": {}, "reports": False, "sbatch_fail": {}, "squeue_fail": 0,
        "faults": False, "nodefaults": False,
    }
    if squeue_faults and rng.random() < squeue_faults:
        # one whole status query fails (7 attempts: num_retries=6), somewhere in the run
        scn["squeue_fail"] = 7
        scn["squeue_skip"] = rng.randint(0, 3)
        scn["faults"] = True
    if onehost and rng.random() < onehost:
        scn["onehost"] = True          # all batches land on one node (one hostname for every node-side submitter round)
    if nodist and rng.random() < nodist:
        scn["dist"] = False            # --no-distributed-submitter: only the user's try-submit-jobs rounds move the submission
    if squeue_odd and rng.random() < squeue_odd:
        # a few status answers show the active batches in states outside JADE's table (SUSPENDED / REQUEUED); no fault
        scn["squeue_odd"] = rng.randint(1, 3)
        scn["squeue_odd_skip"] = rng.randint(0, 4)
    if squeue_lies and rng.random() < squeue_lies:
        # the scheduler answers one or two status queries with an empty listing (exit 0) although batches are active
        scn["squeue_empty"] = rng.randint(1, 2)
        scn["squeue_empty_skip"] = rng.randint(0, 4)
        scn["faults"] = True
    return scn


def params_variants(rng, scn, k):
    """k variants of the same DAG/exit codes with different submitter parameters (C03)."""
    out = []
    for _ in range(k):
        v = json.loads(json.dumps(scn))
        for g in v["groups"]:
            g["tb"] = False
            g["size"] = rng.randint(1, max(1, len(scn["jobs"])))
            g["tryadd"] = rng.random() < 0.5
            g["procs"] = rng.choice([0, 1, 2, 3])
        v["maxnodes"] = rng.choice([1, 2, 3, 0])
        v["cpus"] = rng.randint(1, 4)
        out.append(v)
    return out


def tla_groups(scn, glist):
    groups = {}
    for g in glist:
        groups[g["name"]] = {
            "tb": bool(g["tb"]), "size": int(g["size"]), "tryadd": bool(g["tryadd"]),
            "procs": int(g["procs"]), "cap": int(g.get("wall", WALL_MIN)) * max(1, int(g["procs"])),
            "dry": bool(g.get("dry", False)),
            "opts": expected_opts(g), "run": expected_run(scn, g),
        }
    return groups


def tla_scn(scn, sid):
    """The scenario record handed to the monitor specification."""
    groups = tla_groups(scn, scn["groups"])
    return {
        # replacement parameters a resubmission may pass with -s (JadeImpl.UserResubmit); the same names as `groups`
        "hasregroup": bool(scn.get("regroup")), "regroup": tla_groups(scn, scn.get("regroup") or scn["groups"]),
        "id": sid, "jobs": list(scn["jobs"]),
        "blk": {j: list(scn["blk"][j]) for j in scn["jobs"]},
        "flag": {j: bool(scn["flag"][j]) for j in scn["jobs"]},
        "rc": {j: int(scn["rc"].get(j, 0)) for j in scn["jobs"]},
        "est": {j: int(scn["est"].get(j, 0)) for j in scn["jobs"]},
        "grp": {j: scn["grp"][j] for j in scn["jobs"]},
        "groups": groups, "gorder": [g["name"] for g in scn["groups"]],
        "maxnodes": int(scn["maxnodes"]), "mode": scn["mode"], "cpus": int(scn["cpus"]),
        "faults": bool(scn.get("faults", False)), "nodefaults": bool(scn.get("nodefaults", False)),
        "ref": ref_outcome(scn),
        "hooks": {k: bool(scn.get("hooks", {}).get(k, False)) for k in ("setup", "teardown", "nsetup", "nteardown")},
        "dist": bool(scn.get("dist", True)),
        "firstround": [list(x) for x in scn.get("firstround", [])], "hasfirst": "firstround" in scn,
    }


def expected_opts(g):
    """What the group's HPC parameters say the #SBATCH directives must be (besides job-name/output/error)."""
    opts = [["account", "acct"], ["time", f"0:{int(g.get('wall', WALL_MIN))}:00"]]
    for k in ("partition", "qos", "mem"):
        if g.get(k):
            opts.append([k, g[k]])
    opts.append(["nodes", "1"])
    return sorted(opts)


def expected_run(scn, g):
    run = ["--distributed-submitter" if scn.get("dist", True) else "--no-distributed-submitter"]
    if g["procs"]:
        run.append(f"--num-parallel-processes-per-node={g['procs']}")
    if g.get("verbose"):
        run.append("--verbose")
    return sorted(run)


def write_config(scn, base):
    """Instantiate the scenario with the public job and group models and dump it to a file."""
    from jade.extensions.generic_command import GenericCommandConfiguration, GenericCommandParameters
    from jade.models import SubmitterParams, HpcConfig, SlurmConfig, LocalHpcConfig, SubmissionGroup
    hooks = scn.get("hooks", {})
    cfg = GenericCommandConfiguration(
        setup_command="vsetup a" if hooks.get("setup") else None,
        teardown_command="vteardown b" if hooks.get("teardown") else None,
        node_setup_command="vnsetup c" if hooks.get("nsetup") else None,
        node_teardown_command="vnteardown d" if hooks.get("nteardown") else None,
    )
    for j in scn["jobs"]:
        cfg.add_job(GenericCommandParameters(
            name=j, command=scn.get("cmd", {}).get(j, f"vjob {j}"), blocked_by=set(scn["blk"][j]),
            cancel_on_blocking_job_failure=scn["flag"][j],
            estimated_run_minutes=(scn["est"].get(j) or None),
            submission_group=scn["grp"][j]))
    for g in scn["groups"]:
        if scn["mode"] == "local":
            hpc = HpcConfig(hpc_type="local", hpc=LocalHpcConfig())
        else:
            kw = {k: g[k] for k in ("partition", "qos", "mem") if g.get(k)}
            hpc = HpcConfig(hpc_type="slurm", hpc=SlurmConfig(account="acct", walltime=f"0:{int(g.get('wall', WALL_MIN))}:00", **kw))
        sp = SubmitterParams(
            hpc_config=hpc, generate_reports=bool(scn.get("reports", False)),
            resource_monitor_type=scn.get("monitor", "none"), resource_monitor_interval=(1 if scn.get("monitor") else 10),
            per_node_batch_size=g["size"], time_based_batching=g["tb"], try_add_blocked_jobs=g["tryadd"],
            num_parallel_processes_per_node=(g["procs"] or None), max_nodes=(scn["maxnodes"] or None),
            dry_run=bool(g.get("dry", False)), verbose=bool(g.get("verbose", False)),
            distributed_submitter=bool(scn.get("dist", True)), poll_interval=10)
        cfg.append_submission_group(SubmissionGroup(name=g["name"], submitter_params=sp))
    path = os.path.join(base, "config.json")
    cfg.dump(path)
    return path
