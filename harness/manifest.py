"""Generate MANIFEST.json from the table of checks actually built (python -m harness.manifest)."""
import json
import os
import sys

VERIF = os.path.dirname(os.path.dirname(os.path.abspath(__file__)))
sys.path.insert(0, VERIF)

BASELINE = ("cd /repo && /venv/bin/python -m pytest -ra -q -p no:cacheprovider --timeout=900 "
            "--continue-on-collection-errors")

# property -> (category, text, design_ref, level_note, technique)
CLAIMS = {
    "C01": ("model_checking",
            "TLC enumerates every batch-construction input with <=3 jobs on Batching.tla (no double placement, admissible "
            "batches, node budget, termination); traces recorded from the real submit-jobs/run-jobs/try-submit-jobs under "
            "random interleavings are validated by TLC against the OnePlacement/FreshBatchIndex/OneLaunch/FinalPlacement "
            "clauses of JadeMonitor.tla. Bounded: small scopes exhaustively, larger ones sampled.",
            "5-C01", "simulated SLURM and lock library at the process boundary; bounds as stated in the evidence",
            "TLA+ model (Batching) + TLC trace validation of real executions against JadeMonitor"),
}

NOT_YET = "check not built yet in this round (the specification and harness are being extended property by property)"


def main():
    from harness.check import CHECKS
    props = [json.loads(l)["id"] for l in open(os.path.join(VERIF, "properties.jsonl"))]
    checks = []
    na = []
    for p in props:
        if p in CHECKS and p in CLAIMS:
            cat, text, ref, note, tech = CLAIMS[p]
            checks.append({
                "property_id": p,
                "quick_cmd": f"./check {p} --tier quick",
                "thorough_cmd": f"./check {p} --tier thorough",
                "evidence_file": f"/verif/evidence/{p}.json",
                "replay_cmd_template": "./check replay {path}",
                "engine": "tlc+harness",
                "level_claimed": {"category": cat, "text": text, "design_ref": ref},
                "level_note": note,
                "technique": tech,
            })
        else:
            na.append({"property_id": p, "reason": NA.get(p, NOT_YET)})
    man = {
        "version": 1,
        "setup_cmd": "./setup.sh",
        "hooks": {"guard": "JADE_VERIF", "enable": "no source hooks: every linearization point is observed at the process "
                  "boundary (lock class, subprocess, clock, files) by harness/boundary.py inside forked virtual processes",
                  "baseline_off_cmd": BASELINE, "source_commits": [], "add_only": True},
        "engines": [
            {"name": "tlc+harness", "path": "/verif/check", "serves_properties": [c["property_id"] for c in checks],
             "kind_free_text": "explicit TLA+ specifications (spec/*.tla) checked with TLC; real executions of the unmodified "
                               "code in a simulated world (harness/) recorded as traces and validated by TLC against "
                               "JadeMonitor.tla; model behaviours replayed into the code"},
        ],
        "checks": checks,
        "not_applicable": na,
        "notes": "fix: commits in /repo are listed in known_findings.json (state=fixed).",
    }
    with open(os.path.join(VERIF, "MANIFEST.json"), "w") as f:
        json.dump(man, f, indent=1)
    print("claimed", [c["property_id"] for c in checks], "not claimed", len(na))


NA = {}

if __name__ == "__main__":
    main()
