"""Generate MANIFEST.json from the table of checks actually built (python -m harness.manifest)."""
import json
import os
import sys

VERIF = os.path.dirname(os.path.dirname(os.path.abspath(__file__)))
sys.path.insert(0, VERIF)

BASELINE = ("cd /repo && /venv/bin/python -m pytest -ra -q -p no:cacheprovider --timeout=900 "
            "--continue-on-collection-errors")

# property -> (category, text, design_ref, level_note, technique)
_NOTE = ("simulated SLURM, lock library, clock and subprocess layer at the process boundary (harness/boundary.py); "
         "truthful squeue; bounds as stated in the evidence file")
_TECH = ("TLA+ models (JadeImpl / NodeQueue / Batching / Resubmit / Pipeline / ClusterStore / Results) checked by TLC; model "
         "behaviours replayed into the real code and recorded runs followed by the model (JadeImplPath); TLC trace validation of "
         "real executions against JadeMonitor")


def _claim(text, ref):
    return ("model_checking", text, ref, _NOTE, _TECH)


CLAIMS = {
    "C01": _claim("TLC enumerates every batch-construction input with <=3 jobs on Batching.tla and every interleaving of "
                  "JadeImpl on small scenarios (no double placement, fresh batch numbers, one launch); JadeImpl behaviours are "
                  "replayed into the real code and must produce the predicted events; traces of the real submit-jobs/run-jobs/"
                  "try-submit-jobs under random interleavings are validated by TLC against the C01 clauses of JadeMonitor.tla. "
                  "Also: recorded runs followed by JadeImpl (code -> model), single-delay and login-round x delay sweeps (also "
                  "with file operations as scheduling points), PlacedOrCanceled at every fault-free completion; rounds aborted by a "
                  "failed write of a batch file (after the scheduler accepted earlier batches), then further rounds. "
                  "Bounded: small scopes exhaustively, larger ones sampled.", "5-C01"),
    "C02": _claim("StartAfterBlockers (every launch finds a result row on disk for each configured blocker) is checked by TLC "
                  "on all JadeImpl interleavings (node-level gate in NodePoll, submitter-level hand-over in SubmitBatch) and on "
                  "every launch event of real traces (model replays + random DAGs/parameters/schedules); the hand-over clause "
                  "HandoverCoversUnfinished at every batch file; NodeQueue.tla: one node at the grain of one iteration of "
                  "_check_completions -- TLC explores all inputs <=3 jobs x all exit placements (4 jobs thorough) and the real "
                  "JobQueue+AsyncCliCommand are driven along every exit schedule of the same inputs (incl. commands that cannot "
                  "be started) and compared with NodeQueue!Run; histories with resubmissions/cancellations; a scheduler that "
                  "answers with an empty listing. K2 is a listed known finding.", "5-C02"),
    "C03": _claim("FinalResultsComplete/FinalResultsMatchReference/OneEntryPerJob at every results.json of fault-free runs: "
                  "the reference outcome is computed from the DAG, flags and exit codes only, so every schedule and parameter "
                  "set of a scenario is compared with the same reference; decided on all JadeImpl interleavings and on real "
                  "traces.", "5-C03"),
    "C04": _claim("CanceledShape/CanceledNeverRuns/CanceledOnlyIf/CanceledIff/RanExactlyOnceUnlessCanceled on JadeImpl (node-"
                  "level fixpoint in NodePoll, submitter-level fixpoint in CancelPass) and on real traces; NotCanceledRuns (a job "
                  "the reference does not cancel was started); the cancellation-shape sweep (every 3-job DAG x flags x failing "
                  "job x placement); NodeQueue.tla machine + every exit schedule on the real JobQueue (see C02).", "5-C04"),
    "C05": _claim("Safety clauses (QuiescentRoundProgress, NoIdleLeftover, CompleteHasAllResults, SummaryBeforeFlag, "
                  "CompleteOnce, NoSbatchAfterComplete) on JadeImpl and real traces; eventual completion as bounded recovery on "
                  "the real code (CompletesAfterRecovery) and on the model; TLC liveness (FairSpec => eventually complete, and its "
                  "violation without the user's recovery); JadeImpl with the user's try-submit-jobs at any moment (EagerUser); "
                  "CompleteSummaryHasAll, SummaryOnlyBeforeFlag, NodeRoundAfterBatch; login-node rounds started at every other "
                  "step of base schedules and held at each of their operations; CompletionWorkOnce (one summary per epoch) with a "
                  "try-submit-jobs started at every step of submissions that end with report generation. Session 2: --no-distributed-submitter in JadeImpl and in random runs; WaitsOnlyForUnfinished; resubmitted submissions.", "5-C05"),
    "C06": _claim("NodesBound against the simulator's ground truth after every sbatch/hpc event and ProcsBound after every "
                  "launch, on JadeImpl and real traces (incl. failing scheduler queries); node-level ProcsBound on NodeQueue.tla "
                  "(all inputs <=3 jobs) and on the real JobQueue along every exit schedule, plus random 5-9-job "
                  "cancellation-heavy batches; rounds aborted by a failed write after an accepted sbatch; resubmit-jobs at the "
                  "moment of completion; limits judged against the parameters in force (regroup). Session 2: ActiveBatchesTracked (a round that ends leaves every batch the scheduler still holds among the recorded ids); squeue answers with unmapped display states.", "5-C06"),
    "C07": _claim("Batching.tla: TLC enumerates every batching input with <=3 jobs (admissible batches, node budget, "
                  "termination, closed form = step-wise run); the same input space is executed on the real submit-jobs and the "
                  "observed batches are validated by TLC against the closed form (BatchTrace.tla); C07 clauses of JadeMonitor on "
                  "every cfgbatch/sbatch event of real traces incl. 1-3 groups, group options and dry-run pairs (DryRunSame); "
                  "resubmissions with replaced group parameters (resubmit-jobs -s): the regroup event switches the monitor to the "
                  "new parameters.",
                  "5-C07"),
    "C08": _claim("Results.tla: all interleavings of appenders, collectors (with canceled rows) and a reader at lock-operation "
                  "granularity (bag conservation, exactly-once reporting); its behaviours and random schedules are executed on "
                  "the real ResultsAggregator in virtual processes parked at every lock operation, and random schedules with every "
                  "file operation (result and lock files) as a scheduling point; rows/collected events of whole submissions incl. "
                  "login-node rounds held at each file operation, and of resubmitted submissions (consolidated file rewritten by "
                  "resubmit-jobs, then appended to). Session 2: ReportedRowsRecorded (rows a collection returned are recorded as completed when the command ends).", "5-C08"),
    "C09": _claim("All status clauses evaluated after every cluster-lock release (and between consecutive statuses) on "
                  "JadeImpl and on real traces.", "5-C09"),
}

CLAIMS["C10"] = _claim("ClusterStore.tla: all interleavings of load/promote/demote/update/job-status-only/cancel/complete operations "
                       "by 2-3 handles on 2 hosts incl. handles loaded before others changed the state (one role holder, "
                       "promotion refused while held, stale writes rejected with all four files unchanged); behaviours and random "
                       "schedules executed on the real Cluster class with byte comparison of the files around every operation; "
                       "crash histories (op!k: a process killed between the file writes of one update, its marker broken by the lock "
                       "library for a same-host process) and retry-after-rejection plans; cop events carry the versions of both "
                       "files; promote/status events of whole submissions. Session 2: re-creation of the output directory (submit-jobs --force) with handles of the old incarnation ahead of the new files (k14/k15), time passing before a newcomer's operation (k16), RoleGivenBackAtExit.", "5-C10")

CLAIMS["C11"] = ("fault_enumeration",
                 "Systematic single-fault sweep on the real code: every submitter process of base schedules x every boundary "
                 "operation (fault mode: every file mutation) x {SIGKILL, failed lock acquisition, failed write} x both lock-"
                 "library policies, followed by the other nodes' rounds and user try-submit-jobs; failed scheduler queries; "
                 "every recorded trace validated by TLC against the C11 clauses of JadeMonitor (OnePlacement, OneLaunch, "
                 "StartAfterBlockers, RowsNeverLost, FreshBatchIndex, SqueueFailureHarmless, AfterSqueueFaultNormal); JadeImpl with "
                 "Kill / failing sbatch / failing squeue actions explored by TLC and replayed into the code. Quick tier: the "
                 "fine-grained sweep is sampled except the writes of the four status files, which are always swept completely.", "5-C11", _NOTE,
                 "fault enumeration on the real code + TLC trace validation against JadeMonitor + JadeImpl fault actions")
CLAIMS["C12"] = ("fault_enumeration",
                 "Every subset (<=3) of batches failing at sbatch, a node killed at every operation of every runner (fault mode: "
                 "every lock operation and file mutation), the same while a user's try-submit-jobs is held at each of its "
                 "operations, dependency cycles, random node faults; documented recovery; traces validated by TLC against "
                 "MissingExact, NoFabricatedResult, FinishedKeepResults, StartAfterBlockers, CompletesAfterRecovery. K1 is a "
                 "listed known finding. JadeImpl with NodeKill / failing sbatch actions explored by TLC and replayed.", "5-C12", _NOTE,
                 "fault enumeration on the real code + TLC trace validation against JadeMonitor + JadeImpl fault actions")

CLAIMS["C13"] = _claim("Resubmit.tla: what resubmit-jobs computes and writes before it submits (selection by flags, closure "
                       "under dependents, blockers of rerun jobs, reset, pruned results) checked by TLC for every completed "
                       "submission of <=3 jobs (4 thorough) and compared with what the real command wrote in every run; K2 is "
                       "the TLC counterexample of Resubmit_k2.cfg. Traces of real submissions run to completion and then resubmitted (8 flag combinations, once or twice, "
                       "with/without report generation, missing jobs produced by failed sbatch calls; the whole 3-job space of DAGs "
                       "x exit codes x flags sampled/swept) and of resubmit-jobs on incomplete submissions (nobody submitter / a "
                       "compute node holds the role, other or same host) are validated by TLC against the epoch-aware clauses of "
                       "JadeMonitor (RerunExactly, RerunAllFresh, UntouchedPreserved, StartAfterBlockers per epoch, "
                       "RefuseLeavesUnchanged, NoDeadEnd). JadeImpl with resubmit-jobs as a process (both epochs, every interleaving) "
                       "incl. TLC liveness ResubmitEnds (flag cleared ~> complete again). K2 is a listed known finding and an expected "
                       "TLC counterexample of JadeImpl. Session 2: repeated resubmissions in the 3-job space incl. one that selects nothing; RoleGivenBackAtExit.", "5-C13")
CLAIMS["C14"] = _claim("cancel-jobs issued at every scheduling step of base schedules and at random moments of random submissions, "
                       "followed by try-submit-jobs/show-status sequences; traces validated by TLC against NoSbatchAfterCancel, "
                       "ActiveBatchesCancelled (simulated scancel with SLURM's return codes), MissingExact, FinishedKeepResults, "
                       "RowsNeverLost; JadeImpl with cancel-jobs as a process of its own started at any moment, explored by TLC and "
                       "replayed; cancel at quiet moments (no batch active, jobs unsubmitted); TLC liveness under FairSpecCancel: "
                       "CancelEnds (a cancellation ~> complete, nothing queued/running/active), CancelMarks, with the vacuity run "
                       "without fairness on the cancel process; a cancel-jobs that is refused for all its attempts gives up (CGiveUp) and "
                       "never takes the role from a holder. Session 2: resubmit-jobs among the commands that follow a cancel.", "5-C14")
CLAIMS["C16"] = _claim("All 16 set/unset combinations of the four lifecycle commands x local/HPC x random DAGs and schedules; the "
                       "commands are served by the controller and recorded with host, batch, environment, rows on disk and live "
                       "job processes; traces validated by TLC against the hook clauses of JadeMonitor; JadeImpl with the four "
                       "commands as actions (Teardown between Summary and MarkComplete, NodeSetup/NodeTeardown around the node's "
                       "queue) explored by TLC and replayed; failing teardown / node teardown commands; multi-group runs; canceled "
                       "completions (cancel-jobs at any moment in the model with the commands as actions, at every step of base "
                       "schedules on the code). Session 2: submissions with lifecycle commands resubmitted (some jobs / every job).", "5-C16")

CLAIMS["C15"] = _claim("Traces of real `jade pipeline submit` runs (1-4 stages, local and HPC, nested submit-next-stage commands as "
                       "virtual processes, per-stage recovery) are validated by TLC against PipelineMonitor.tla: stage k+1 is "
                       "created / active only after stage k's complete status, each stage created once and in order, "
                       "pipeline.json's stage number and return codes match what happened, pipeline complete last; pipelines built "
                       "from auto-config commands (the command sees the status file); Pipeline.tla: the manager as a deterministic "
                       "function of the stages' outcomes, checked against the monitor for all shapes <=4 stages, and every recorded "
                       "run's manager-level events compared with it.", "5-C15")

_FNOTE = ("the real functions are executed in-process on enumerated inputs with only the process/SLURM boundary stubbed; TLC "
          "validates every recorded (input, output) observation against the operators of the specification module; string-level "
          "fidelity is exercised over the generated alphabets only")
CLAIMS["C17"] = ("exploration",
                 "Abstract configurations over the public job/group models and every single injected invalidity are built with "
                 "the real models, dumped, loaded and submitted (counting sbatch stub); TLC decides with Valid(cfg) of "
                 "ConfigCheck.tla whether each observed verdict (accepted / rejected with which error, sbatch calls before the "
                 "rejection, loaded projection = original projection) is right; walltimes from 10 minutes to 48 hours. Session 2: files whose job list is permuted or repeats an id; dependencies given through constructor / attribute / setter; the configuration object itself must pass the submitter's checks.", "5-C17", _FNOTE,
                 "TLA+ oracle (ConfigCheck) + TLC validation of observations of the real code")
CLAIMS["C18"] = ("model_checking",
                 "Slurm.tla: the retry loop as a state machine (TLC: all outcome sequences, retries 0..6); operators for the "
                 "expected #SBATCH directives, the terminal SLURM states and the submit-response classes; all 2^9 optional-field "
                 "combinations, every SLURM state x whitespace rendering, 7 response classes and all retry outcome sequences are "
                 "executed on the real code and validated by TLC; the whole status path also runs against a scheduler that "
                 "interprets the squeue command line (-u/-j/-n/-t/-h/--Format). Session 2: several tracked batches through one status collector with a failing query (StatusMultiVerdict); ActiveBatchesTracked on whole submissions validated against JadeMonitor.", "5-C18", _FNOTE,
                 "TLA+ model (Slurm) checked by TLC + TLC validation of observations of the real code")
CLAIMS["C19"] = ("model_checking",
                 "Launch.tla: POSIX word splitting as a recursive operator, enumerated by TLC over all strings <=5 of a 9-symbol "
                 "quoting alphabet; the same strings (x job names, append flags, exit codes 0..255) are launched through the real "
                 "GenericCommandParameters / generate_command / AsyncCliCommand / ResultsAggregator with Popen captured, and TLC "
                 "validates argv, appended --jade-* arguments, environment, stdio files and the recorded row.", "5-C19", _FNOTE,
                 "TLA+ model (Launch) checked by TLC + TLC validation of observations of the real code")
CLAIMS["C20"] = ("model_checking",
                 "Reports.tla: the running min/max/sum machine (TLC: all sample sequences <=5 over 0..3) and the consolidation "
                 "operators; all sample sequences <=4 are fed to the real ResourceMonitorAggregator (node and per-process), random "
                 "event multisets over several files are consolidated twice with the real EventsSummary (lists per name; for resource-"
                 "statistics events the per-name tables, one row per monitored process, read back with get_dataframe), and TLC validates the "
                 "observations; results.json tallies are validated on whole submissions (TallyPartition) and the consolidated "
                 "event summary against the event logs after a resubmission (reports on, periodic monitoring). Session 2: simulated jobs log structured events of their own through a handle kept open; ground truth = what they wrote.", "5-C20", _FNOTE,
                 "TLA+ model (Reports) checked by TLC + TLC validation of observations of the real code")

NOT_YET = "check not built yet in this round (the specification and harness are being extended property by property)"


def main():
    from harness.check import CHECKS
    props = [json.loads(l)["id"] for l in open(os.path.join(VERIF, "properties.jsonl"))]
    checks = []
    na = []
    for p in props:
        if p in CHECKS and p in CLAIMS:
            cat, text, ref, note, tech = CLAIMS[p]
            checks.append({
                "property_id": p,
                "quick_cmd": f"./check {p} --tier quick",
                "thorough_cmd": f"./check {p} --tier thorough",
                "evidence_file": f"/verif/evidence/{p}.json",
                "replay_cmd_template": "./check replay {path}",
                "engine": "tlc+harness",
                "level_claimed": {"category": cat, "text": text, "design_ref": ref},
                "level_note": note,
                "technique": tech,
            })
        else:
            na.append({"property_id": p, "reason": NA.get(p, NOT_YET)})
    man = {
        "version": 1,
        "setup_cmd": "./setup.sh",
        "hooks": {"guard": "JADE_VERIF", "enable": "no source hooks: every linearization point is observed at the process "
                  "boundary (lock class, subprocess, clock, files) by harness/boundary.py inside forked virtual processes",
                  "baseline_off_cmd": BASELINE, "source_commits": [], "add_only": True},
        "engines": [
            {"name": "tlc+harness", "path": "/verif/check", "serves_properties": [c["property_id"] for c in checks],
             "kind_free_text": "explicit TLA+ specifications (spec/*.tla) checked with TLC; real executions of the unmodified "
                               "code in a simulated world (harness/) recorded as traces and validated by TLC against "
                               "JadeMonitor.tla; model behaviours replayed into the code"},
        ],
        "checks": checks,
        "not_applicable": na,
        "notes": "fix: commits in /repo are listed in known_findings.json (state=fixed).",
    }
    with open(os.path.join(VERIF, "MANIFEST.json"), "w") as f:
        json.dump(man, f, indent=1)
    print("claimed", [c["property_id"] for c in checks], "not claimed", len(na))


NA = {}

if __name__ == "__main__":
    main()
