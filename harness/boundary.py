"""Child side of the conformance harness: the world boundary installed around the
unmodified jade code inside one forked virtual process.

Everything jade does that another process, the HPC or a crash could observe goes through an RPC
to the controller (harness/world.py): lock operations, external commands, sleeps, and -- in
fault runs -- file mutations.  The controller answers when it wants the process to move on; not
answering *is* the scheduling decision.
"""
import errno
import json
import os
import sys
import traceback

CH = None          # channel to the controller
VP = None          # this virtual process' description
VT = [0.0]         # virtual clock
_DEPTH = {"audit": 0}


class Chan:
    def __init__(self, rfd, wfd):
        self.rfd, self.wfd = rfd, wfd
        self.buf = b""

    def send(self, req):
        data = (json.dumps(req) + "\n").encode()
        while data:
            n = os.write(self.wfd, data)
            data = data[n:]

    def call(self, **req):
        _DEPTH["audit"] += 1
        try:
            self.send(req)
            while b"\n" not in self.buf:
                chunk = os.read(self.rfd, 65536)
                if not chunk:
                    os._exit(99)   # controller went away
                self.buf += chunk
            line, self.buf = self.buf.split(b"\n", 1)
            # the virtual clock is process-local: it advances by this process' own sleeps and lock timeouts only
            # (a clock shared with the controller would make a parked process observe huge gaps between two of its
            # own consecutive operations, which no real execution does)
            return json.loads(line)
        finally:
            _DEPTH["audit"] -= 1


class SimLock:
    """Replacement for filelock.SoftFileLock: a real O_CREAT|O_EXCL marker file, every
    operation visible to (and scheduled by) the controller."""

    def __init__(self, lock_file, timeout=-1, **kw):
        self.lock_file = str(lock_file)
        self._held = False

    @property
    def is_locked(self):
        return self._held

    def acquire(self, timeout=None, **kw):
        import filelock
        while True:
            rep = CH.call(op="lock_try", path=self.lock_file)
            if rep.get("fail"):
                raise filelock.Timeout(self.lock_file)
            try:
                fd = os.open(self.lock_file, os.O_WRONLY | os.O_CREAT | os.O_EXCL)
            except FileExistsError:
                rep = CH.call(op="lock_blocked", path=self.lock_file)
                if rep.get("timeout"):
                    VT[0] += 300.0
                    raise filelock.Timeout(self.lock_file)
                continue
            os.write(fd, f"{VP['pid']}\n{VP['host']}\n".encode())
            os.close(fd)
            self._held = True
            CH.call(op="lock_acquired", path=self.lock_file)
            return self

    def release(self, force=False):
        if not self._held and not force:
            return
        try:
            os.unlink(self.lock_file)
        except FileNotFoundError:
            pass
        self._held = False
        CH.call(op="lock_released", path=self.lock_file)

    def __enter__(self):
        return self.acquire()

    def __exit__(self, *a):
        self.release()


class FakePopen:
    """subprocess.Popen served by the controller."""

    def __init__(self, cmd, env=None, stdout=None, stderr=None, cwd=None, **kw):
        if isinstance(cmd, str):
            cmd = [cmd]
        e = env if env is not None else os.environ
        envsub = {k: e[k] for k in ("JADE_JOB_NAME", "JADE_RUNTIME_OUTPUT", "JADE_SUBMISSION_GROUP",
                                    "JADE_PIPELINE_OUTPUT_DIR", "JADE_PIPELINE_STATUS_FILE",
                                    "JADE_PIPELINE_STAGE_ID") if k in e}
        rep = CH.call(op="popen", argv=[str(x) for x in cmd], env=envsub, cwd=cwd,
                      stdout=getattr(stdout, "name", None), stderr=getattr(stderr, "name", None))
        self.args = cmd
        self.h = rep["h"]
        self.pid = 100000 + self.h
        self.returncode = rep.get("rc")
        self._out = rep.get("stdout", "")
        self._err = rep.get("stderr", "")

    def poll(self):
        if self.returncode is None:
            rep = CH.call(op="poll", h=self.h)
            self.returncode = rep.get("rc")
        return self.returncode

    def wait(self, timeout=None):
        if self.returncode is None:
            rep = CH.call(op="wait", h=self.h)
            self.returncode = rep.get("rc")
        return self.returncode

    def communicate(self, input=None, timeout=None):
        self.wait()
        return self._out.encode(), self._err.encode()

    def terminate(self):
        CH.call(op="terminate", h=self.h)

    kill = terminate

    def __enter__(self):
        return self

    def __exit__(self, *a):
        return False


_STATE_FILE_PAT = None


def _audit(event, args):
    """File mutations under the output directory become park points (fault runs only)."""
    if _DEPTH["audit"]:
        return
    path = None
    what = None
    if event == "open":
        p, mode, flags = args
        if not isinstance(p, (str, bytes, os.PathLike)):
            return
        if flags is None or not (flags & (os.O_WRONLY | os.O_RDWR | os.O_CREAT | os.O_TRUNC | os.O_APPEND)):
            return
        path, what = os.fspath(p), "open_w"
    elif event == "os.remove":
        path, what = os.fspath(args[0]), "remove"
    elif event == "os.rename":
        path, what = os.fspath(args[1]), "rename"
    elif event == "os.utime":
        path, what = os.fspath(args[0]), "utime"
    else:
        return
    if isinstance(path, bytes):
        path = path.decode()
    if not path.startswith(VP["root"]):
        return
    base = os.path.basename(path)
    if not _STATE_FILE_PAT.search(base):
        return
    rep = CH.call(op="audit", what=what, path=path)
    if rep.get("fail"):
        raise OSError(errno.EDQUOT, "Disk quota exceeded (injected)", path)


def install(vp):
    """Replace the world boundary inside this process."""
    global VP, _STATE_FILE_PAT
    import re
    import socket
    import subprocess
    import time
    VP = vp
    os.environ.update(vp.get("env", {}))
    socket.gethostname = lambda: vp["host"]
    import tempfile
    import multiprocessing
    tempfile.tempdir = vp["root"]
    if vp.get("env", {}).get("VERIF_CPUS"):
        ncpu = int(vp["env"]["VERIF_CPUS"])
        multiprocessing.cpu_count = lambda: ncpu
    import filelock
    import jade.jobs.cluster
    import jade.jobs.results_aggregator
    for mod in (jade.jobs.cluster, jade.jobs.results_aggregator):
        if hasattr(mod, "SoftFileLock"):
            mod.SoftFileLock = SimLock
    filelock.SoftFileLock = SimLock
    real_popen = subprocess.Popen

    def popen(cmd, *a, **kw):
        if isinstance(cmd, (list, tuple)) and cmd and cmd[0] == "git":
            return real_popen(cmd, *a, **kw)
        return FakePopen(cmd, *a, **kw)

    subprocess.Popen = popen
    subprocess.call = lambda cmd, **kw: (real_popen(cmd, **kw).wait()
                                         if isinstance(cmd, (list, tuple)) and cmd and cmd[0] == "git"
                                         else FakePopen(cmd, **kw).wait())

    def vsleep(s):
        CH.call(op="sleep", s=float(s))
        VT[0] += max(0.0, float(s))

    def vtime():
        VT[0] += 0.001
        return VT[0]

    time.sleep = vsleep
    time.time = vtime
    try:
        import jade.result
        if hasattr(jade.result, "time") and callable(jade.result.time):
            jade.result.time = vtime
    except Exception:
        pass
    VT[0] = vp.get("now", 0.0)
    if vp.get("audit"):
        _STATE_FILE_PAT = re.compile(vp["audit"])
        sys.addaudithook(_audit)
    _install_observers(vp)


def _row6(result):
    return [str(getattr(result, f)) for f in ("name", "return_code", "status", "exec_time_s",
                                              "completion_time", "hpc_job_id")]


def _install_observers(vp):
    """Wrappers around *public* callables whose return values the properties name but that never
    reach a file.  They observe, they do not alter."""
    from jade.jobs.cluster import Cluster
    from jade.jobs.results_aggregator import ResultsAggregator

    orig_deser = Cluster.deserialize.__func__

    def deserialize(cls, path, *a, **kw):
        # (signature-agnostic: the observer must not constrain how the code under test calls its own function)
        try_promote_to_submitter = bool(kw.get("try_promote_to_submitter", a[0] if a else False))
        try:
            res = orig_deser(cls, path, *a, **kw)
        except BaseException as exc:
            if try_promote_to_submitter:
                CH.call(op="api", name="promote", ok=False, exc=type(exc).__name__, path=str(path))
            raise
        if try_promote_to_submitter:
            CH.call(op="api", name="promote", ok=bool(res[1]), exc="", path=str(path))
        return res

    Cluster.deserialize = classmethod(deserialize)

    orig_create = Cluster.create.__func__

    def create(cls, path, *a, **kw):
        res = orig_create(cls, path, *a, **kw)
        CH.call(op="api", name="promote", ok=True, exc="", path=str(path), create=True)
        return res

    Cluster.create = classmethod(create)

    orig_demote = Cluster.demote_from_submitter

    def demote_from_submitter(self, *a, **kw):
        try:
            res = orig_demote(self, *a, **kw)
        except BaseException as exc:
            CH.call(op="api", name="demote", ok=False, exc=type(exc).__name__, path=str(self.config.path))
            raise
        CH.call(op="api", name="demote", ok=True, exc="", path=str(self.config.path))
        return res

    Cluster.demote_from_submitter = demote_from_submitter

    orig_process = ResultsAggregator.process_results

    def process_results(self):
        res = orig_process(self)
        CH.call(op="api", name="collected", rows=[_row6(r) for r in res], path=str(getattr(self, "_filename", "?")))
        return res

    ResultsAggregator.process_results = process_results

    orig_append = ResultsAggregator.append_result

    def append_result(self, result):
        path = str(getattr(self, "_filename", "?"))
        CH.call(op="api", name="append", row=_row6(result), path=path)
        res = orig_append(self, result)
        CH.call(op="api", name="appended", row=_row6(result), path=path)
        return res

    ResultsAggregator.append_result = append_result


def child_main(rfd, wfd, vp):
    """Entry point of a forked virtual process. Never returns."""
    global CH
    CH = Chan(rfd, wfd)
    code, exc, tb = 0, "", ""
    try:
        devnull = open(vp.get("log") or os.devnull, "a")
        sys.stdout = devnull
        sys.stderr = devnull
        try:
            os.dup2(devnull.fileno(), 1)
            os.dup2(devnull.fileno(), 2)
        except OSError:
            pass
        if vp.get("cwd"):
            os.chdir(vp["cwd"])
        install(vp)
        CH.call(op="begin")
        kind = vp["kind"]
        if kind == "cli":
            argv = vp["argv"]
            if argv[0] == "jade":
                from jade.cli.jade import cli
            elif argv[0] == "jade-internal":
                from jade.cli.jade_internal import cli
            else:
                raise RuntimeError(f"unknown cli {argv[0]}")
            ret = cli.main(args=argv[1:], standalone_mode=False)
            code = ret if isinstance(ret, int) else 0
        elif kind == "api":
            import importlib
            mod = importlib.import_module(vp["module"])
            ret = getattr(mod, vp["func"])(CH, **vp.get("args", {}))
            code = ret if isinstance(ret, int) else 0
        else:
            raise RuntimeError(f"unknown kind {kind}")
    except SystemExit as e:
        c = e.code
        code = c if isinstance(c, int) else (0 if c is None else 1)
    except BaseException as e:   # noqa
        code = 1
        exc = type(e).__name__
        tb = (str(e)[:300] + "\n" + traceback.format_exc()[-1500:])
    try:
        CH.send({"op": "exit", "code": code, "exc": exc, "tb": tb})
    finally:
        os._exit(0)
