"""From recorded traces to verdicts: encode traces for JadeMonitor, run TLC (MonTrace), read
the verdict lines."""
import json
import os
import re
import tempfile
from concurrent.futures import ThreadPoolExecutor

from harness import scenario
from harness.tlc import run_tlc, OUT, TlcError

DROP_OPTS = {"job-name", "output", "error"}
FAULT_EVENTS = {"kill", "fault"}


def canon_row(r):
    """Canonical form of a result row: numeric fields by value (the file is rewritten by resubmit-jobs with another
    formatting of the same numbers), a missing HPC id as the empty string."""
    try:
        return [r[0], str(int(r[1])), r[2], repr(float(r[3])), repr(float(r[4])), "" if r[5] in ("None", "") else str(r[5])]
    except (ValueError, TypeError, IndexError):
        return [str(x) for x in r]


def nonull(x):
    """TLC's Json module cannot read null: a null recorded from the code (e.g. a field csv.DictReader could not fill from a
    damaged row) becomes a string that equals nothing the specification expects -- a verdict instead of a machinery failure."""
    if x is None:
        return "<null>"
    if isinstance(x, dict):
        return {k: nonull(v) for k, v in x.items()}
    if isinstance(x, (list, tuple)):
        return [nonull(v) for v in x]
    return x


def encode_event(e, d="out"):
    k = e["e"]
    if e.get("dir", d) != d:
        return None
    if k == "proc":
        fl = e.get("flags", [])
        return {"e": k, "pid": e["pid"], "k": e["k"], "nested": e["nested"], "b": e["b"],
                "fl": {"failed": "--no-failed" not in fl, "missing": "--no-missing" not in fl, "successful": "--successful" in fl}}
    if k == "regroup":
        return {"e": k, "groups": e["groups"]}
    if k == "exit":
        return {"e": k, "pid": e["pid"], "k": e["k"], "code": e["code"], "exc": e["exc"], "clock": bool(e.get("clock", False))}
    if k == "cfgbatch":
        return {"e": k, "b": e["b"], "rewrite": e["rewrite"], "jobs": e["jobs"], "hb": e["hb"], "rows": e["rows"]}
    if k == "sbatch":
        opts = sorted([a, b] for a, b in e["opts"].items() if a not in DROP_OPTS)
        run = sorted(x for x in e["run"] if not x.startswith("--output="))
        return {"e": k, "ok": e["ok"], "b": e["b"], "active": e["active"], "jobs": e["jobs"], "hb": e["hb"],
                "rows": e["rows"], "opts": opts, "run": run}
    if k == "hpc":
        return {"e": k, "what": ("walltime" if e.get("spin") else e["what"]), "b": e["b"], "active": e["active"]}
    if k == "kill" and e.get("why") == "node timeout" and e.get("spin"):
        return None
    if k == "launch":
        return {"e": k, "job": e["job"], "b": e["b"], "rows": e["rows"], "live": e["live"], "pid": e["pid"]}
    if k == "jobexit":
        return {"e": k, "job": e["job"], "rc": e["rc"]}
    if k in ("append", "appended"):
        return {"e": k, "row": canon_row(e["row"])}
    if k == "rows":
        return {"e": k, "proc": [canon_row(r) for r in e["proc"]], "node": [[b, [canon_row(r) for r in rows]] for b, rows in e["node"]],
                "ok": e["ok"]}
    if k == "collected":
        return {"e": k, "rows": [canon_row(r) for r in e["rows"]]}
    if k == "status":
        d = {x: e[x] for x in ("e", "pid", "sub", "njobs", "nsub", "ndone", "complete", "canceled", "cver", "cverf",
                               "jver", "jverf", "st", "rem", "ids", "bidx", "marker", "rows")}
        d["idb"] = list(e.get("idb", []))
        return d
    if k == "promote":
        return {x: e[x] for x in ("e", "pid", "host", "ok", "exc", "before", "after", "create")}
    if k == "summary":
        res = [[r[0], r[1], r[2], repr(float(r[3])), repr(float(r[4])), "" if r[5] in ("None", "") else str(r[5])] for r in e["res"]]
        return {"e": k, "res": res, "missing": e["missing"], "tally": e["tally"]}
    if k == "squeue":
        return {"e": k, "ok": e["ok"], "pid": e["pid"]}
    if k == "scancel":
        return {"e": k, "b": e["b"]}
    if k == "hook":
        return {"e": k, "which": e["which"], "b": (-1 if e["which"] in ("setup", "teardown") else e["b"]), "envok": e["envok"], "grp": e["grp"], "rows": e["rows"], "live": e["live"],
                "pid": e["pid"], "rc": e["rc"]}
    if k == "cop":
        return {x: e[x] for x in ("e", "pid", "op", "hcver", "hjver", "dcver", "djver", "ddcver", "ddjver", "exc", "changed",
                                  "wcfg", "wjs", "ok", "before", "host", "loaded")}
    if k == "kill":
        # a node that disappears takes its runner (and a nested command that is not acting as submitter) with it: that is
        # C12's "node killed"; a killed process that holds (or may hold) the submitter role is C11's fault
        node_caused = e.get("why", "").startswith("node ") or e.get("why") == "parent died"
        if node_caused and (e["k"] == "run-jobs" or not e.get("holder")):
            return {"e": "nodekill", "pid": e["pid"]}
        return {"e": "kill", "pid": e["pid"]}
    if k == "fault":
        if e.get("kind") == "squeue-empty":
            return {"e": "sqlie", "pid": e["pid"]}
        return {"e": "fault", "pid": e["pid"]}
    if k == "eventsobs":
        return {"e": k, "logged": e["logged"], "summary": e["summary"]}
    if k == "marker":
        return {"e": "marker", "on": e["on"], "pid": e["pid"]}
    if k == "recreated":
        return {"e": k, "pid": e["pid"]}
    if k == "end":
        return {"e": k, "full": bool(e.get("full", True))}
    return None


def encode_trace(tr, sid):
    evs = []
    idx = []          # position in the monitor trace -> index in the recorded trace
    for i, e in enumerate(tr["ev"]):
        x = encode_event(e)
        if x is not None:
            evs.append(x)
            idx.append(i)
    return {"scn": scenario.tla_scn(tr["scn"], sid), "ev": evs}, idx


_VERDICT = re.compile(r'<<"VERDICT", "(.*)">>\s*$')


def check_traces(traces, shards=8, keep=False, module="MonTrace", encoder=None):
    """traces: list of recorded traces. Returns (verdicts, stats): verdicts[i] = dict(viol=[...], vpos={}, cnt={})."""
    os.makedirs(OUT, exist_ok=True)
    encoder = encoder or encode_trace
    enc = [encoder(tr, str(i))[0] for i, tr in enumerate(traces)]
    n = len(enc)
    shards = max(1, min(shards, (n + 24) // 25))
    parts = [list(range(k, n, shards)) for k in range(shards)]
    files = []
    for k, part in enumerate(parts):
        fd, path = tempfile.mkstemp(prefix=f"traces{k}_", suffix=".json", dir=OUT)
        with os.fdopen(fd, "w") as f:
            json.dump(nonull([enc[i] for i in part]), f)
        files.append(path)

    def one(path):
        return run_tlc(module, cfg=module + ".cfg", workers=1, env={"TRACE_FILE": path}, timeout=3600)

    with ThreadPoolExecutor(max_workers=shards) as ex:
        results = list(ex.map(one, files))
    verdicts = [None] * n
    states = 0
    for part, res, path in zip(parts, results, files):
        if "Model checking completed" not in res["out"] or res["rc"] != 0:
            raise TlcError("TLC failed on trace batch %s (rc=%s):\n%s" % (path, res["rc"], res["out"][-3000:]))
        states += res["distinct"]
        for line in res["out"].split("\n"):
            mm = _VERDICT.search(line.strip())
            if mm:
                v = json.loads(mm.group(1).replace('\\"', '"').replace("\\\\", "\\"))
                i = int(v["id"])
                verdicts[i] = {"viol": sorted(v["viol"]), "vpos": v["vpos"] if isinstance(v["vpos"], dict) else {},
                               "cnt": v["cnt"] if isinstance(v["cnt"], dict) else {}}
        if not keep:
            os.remove(path)
    missing = [i for i, v in enumerate(verdicts) if v is None]
    if missing:
        raise TlcError(f"no verdict for traces {missing[:10]}")
    return verdicts, {"tlc_states": states, "tlc_wall": max(r["wall"] for r in results), "shards": shards}
