"""./check replay <file>: re-execute a recorded violation (same driver, same scenario, same seed => same schedule),
validate the new trace with TLC against the monitor and print the events around the offending one."""
import json
import sys


def main(path):
    from harness import check, tracecheck, run
    from harness.world import warm
    d = json.load(open(path))
    if "observation" in d:
        # function-level observation: run the real code on the recorded input again, validate with TLC
        from harness import funcs
        run.setup_registry()
        if d.get("task"):
            o = getattr(funcs, d["task"][0])(*d["task"][1])
            if isinstance(o, list):       # a driver that yields several observations: the one for the recorded input
                same = [x for x in o if x.get("samples") == d["observation"].get("samples") or x.get("sched") == d["observation"].get("sched")]
                o = (same or o)[0]
        else:
            o = d["observation"]
        v, _ = funcs.validate(d["module"], d["cfg"], [o], shards=1)
        print("property", d["property"], "clause", d["clause"])
        print("observation:", json.dumps(o)[:1500])
        print("violated clauses on replay:", v[0])
        print("REPRODUCED" if d["clause"] in v[0] else "NOT REPRODUCED (the tree may have changed since the file was written)")
        return 0 if d["clause"] in v[0] else 1
    drv = d.get("driver")
    run.setup_registry()
    warm()
    if not drv or drv[0] not in check.DRIVERS:
        print("no replayable driver recorded; showing the recorded trace")
        tr = {"scn": d["scn"], "ev": d["ev"]}
    else:
        name = drv[0]
        args = drv[1:]
        if name == "scn":
            args = [drv[1], drv[2]]
        elif name == "fault":
            args = [drv[1], drv[2], drv[3], drv[4]]
        elif name == "model_replay":
            args = [drv[1], drv[2], drv[3], []]
        elif name == "resubmit":
            name, args = "resubmit_scn", [drv[1], drv[2], drv[3]] + ([drv[4]] if len(drv) > 4 else [])
        elif name == "resubmit_incomplete":
            tr = run.run_resubmit_incomplete(drv[1], drv[2], drv[3])
            name = None
        elif name == "cluster":
            from harness import run_api
            plan = next(p for p in run_api.cluster_scripts() if p["id"] == drv[1])
            tr = run_api.run_cluster(plan, seed=drv[2], path=drv[3])
            name = None
        elif name == "results":
            from harness import run_api
            plan = next(p for p in run_api.results_plans() if p["id"] == drv[1])
            tr = run_api.run_results(plan, seed=drv[2], path=drv[3])
            name = None
        if name is not None:
            res = check.DRIVERS[name](*args)
            tr = res[-1] if isinstance(res, list) else res
    verdicts, _ = tracecheck.check_traces([tr], shards=1)
    v = verdicts[0]
    print("property", d.get("property"), "clause", d.get("clause"))
    print("violated clauses on replay:", v["viol"])
    enc, idx = tracecheck.encode_trace(tr, "x")
    pos = v["vpos"].get(d.get("clause"))
    if pos:
        raw = idx[pos - 1]
        lo = max(0, raw - 12)
        for i in range(lo, min(len(tr["ev"]), raw + 3)):
            mark = ">>" if i == raw else "  "
            print(mark, i, json.dumps(tr["ev"][i])[:400])
    reproduced = d.get("clause") in v["viol"]
    print("REPRODUCED" if reproduced else "NOT REPRODUCED (the tree may have changed since the file was written)")
    return 0 if reproduced else 1


if __name__ == "__main__":
    sys.exit(main(sys.argv[1]))
