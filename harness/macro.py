"""Code -> model conformance (backward direction): random runs of the real code scheduled at the granularity of
JadeImpl's visible operations.  Each macro step is classified (process slot + class of the operation it was parked
at); spec/JadeImplPath.tla then drives JadeImpl along that sequence -- silent model steps are filled in by TLC --
and the events the model emits are compared with the events observed.  The schedules and scenarios come from the
harness' random generator, not from TLC."""
import os
import random

from harness import replay_model
from harness.replay_model import parked
from harness.run import Run


class MacroRun:
    def __init__(self, scn, seed, maxb):
        self.scn, self.seed, self.maxb = scn, seed, maxb
        self.r = Run(scn, seed)
        self.w = self.r.w
        self.rng = self.r.rng
        self.labels = []          # [class, slot or argument]
        self.login = None
        self.bad = None

    # ---- slots
    def slot_of(self, p):
        if p.batch is None:
            return 0
        b = self.w._bnum(p.batch)
        return b if p.label == "run-jobs" else self.maxb + b

    def own_handles(self, p):
        return [hd for hd in self.w.handles.values() if hd["type"] == "job" and hd["owner"] == p.pid]

    def enabled(self):
        """Macro moves: (kind, object)."""
        w = self.w
        moves = []
        for p in w.procs:
            if not p.alive or not w._step_enabled(p):
                continue
            pk = parked(p)
            if p.label == "run-jobs" and pk == ("sleep",):
                hs = self.own_handles(p)
                ready = any(hd["state"] == "done" and not hd.get("polled") for hd in hs)
                finished = all(hd["state"] != "running" and (hd["state"] != "done" or hd.get("polled")) for hd in hs)
                if not (ready or finished):
                    continue          # an empty poll is a stutter of the model
            moves.append(("proc", p))
        for hid, b in w.batches.items():
            if b["state"] == "PENDING":
                moves.append(("start", hid))
        for h, hd in w.handles.items():
            if hd["type"] == "job" and hd["state"] == "running":
                moves.append(("jobexit", h))
        return moves

    def step(self, p):
        self.w.do(("step", p.pid))

    def macro(self, p):
        """Advance p through one visible operation of the model; returns its class."""
        w = self.w
        pk = parked(p)
        s = self.slot_of(p)
        if p.label == "run-jobs":
            if pk[:2] == ("popen", "job"):
                while p.alive and parked(p)[:2] == ("popen", "job"):
                    self.step(p)
                return ["NodeInit", s]
            if pk == ("sleep",):
                hs = self.own_handles(p)
                ready = any(hd["state"] == "done" and not hd.get("polled") for hd in hs)
                self.step(p)
                if ready:
                    while p.alive and parked(p)[:2] in (("lock", "node"), ("popen", "job")):
                        self.step(p)
                    return ["NodePoll", s]
                guard = 0
                while p.alive and parked(p) != ("wait",) and guard < 20:
                    self.step(p)
                    guard += 1
                return ["NodeTry", s]
            if pk == ("wait",):
                self.step(p)
                return ["NodeEnd", s]
            if pk[0] == "popen":          # node setup command etc.
                self.step(p)
                return ["Other", s]
            self.step(p)
            return ["Other", s]
        # submitter-type processes
        if pk[:2] == ("lock", "cluster"):
            self.step(p)
            return ["L", s]
        if pk[:2] == ("lock", "processed"):
            had = bool(p.deferred)
            self.step(p)
            while had and p.alive and p.deferred and parked(p)[:2] == ("lock", "processed"):
                self.step(p)
            return ["P", s]
        if pk[:2] == ("lock", "node"):
            b = pk[2]
            self.step(p)
            return ["Move", s, b]
        if pk[:2] == ("popen", "squeue"):
            self.step(p)
            return ["Poll", s]
        if pk[:2] == ("popen", "sbatch"):
            self.step(p)
            return ["SubmitBatch", s]
        self.step(p)
        return ["Other", s]

    def run(self):
        w = self.w
        try:
            self.login = self.r.submit()
            guard = 0
            while not any(e["e"] == "rows" for e in w.trace) and guard < 20:
                self.step(self.login)
                guard += 1
            self.sync = len(w.trace)
            n = 0
            while n < 3000:
                n += 1
                moves = self.enabled()
                if not moves:
                    st = self.r.status()
                    if st is None or st["complete"] or self.r.recoveries >= len(self.scn["jobs"]) + 3:
                        break
                    if any(p.alive for p in w.procs):
                        self.bad = "stuck with live processes"
                        break
                    self.r.recoveries += 1
                    self.login = self.r.user("try-submit-jobs", w.out)
                    self.labels.append(["UserTry", 0])
                    continue
                kind, obj = moves[self.rng.randrange(len(moves))]
                if kind == "start":
                    b = w.batches[obj]["b"]
                    if b > self.maxb:
                        self.bad = "more batches than the model's bound"
                        break
                    w.do(("start", obj))
                    self.labels.append(["StartBatch", b])
                elif kind == "jobexit":
                    w.do(("jobexit", obj))
                    self.labels.append(["JobExit", w.handles[obj]["job"]])
                else:
                    lbl = self.macro(obj)
                    if lbl[0] == "Other":
                        self.bad = "operation without a model counterpart"
                        break
                    self.labels.append(lbl)
            self.labels.append(["End", 0])
            w.ev(e="end", recoveries=self.r.recoveries, full=True)
        finally:
            tr = self.r.finish()
        tr["labels"] = self.labels
        tr["sync"] = self.sync
        tr["bad"] = self.bad
        tr["driver"] = ["macro", self.scn, self.seed, self.maxb]
        return tr
