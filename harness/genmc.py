"""Generate TLA+ literals (MC_* modules) from Python scenario records."""
import json


def tla(v):
    if isinstance(v, bool):
        return "TRUE" if v else "FALSE"
    if isinstance(v, int):
        return str(v)
    if isinstance(v, str):
        return json.dumps(v)
    if isinstance(v, (list, tuple)):
        return "<<" + ", ".join(tla(x) for x in v) + ">>"
    if isinstance(v, dict):
        if not v:
            return "<<>>"
        if all(isinstance(k, str) and k.isidentifier() for k in v):
            return "[" + ", ".join(f"{k} |-> {tla(x)}" for k, x in v.items()) + "]"
        return "(" + " @@ ".join(f"({tla(k)} :> {tla(x)})" for k, x in v.items()) + ")"
    raise TypeError(type(v))


def mc_module(name, extends, scns, extra_defs=""):
    lines = [f"---- MODULE {name} ----", f"EXTENDS {extends}", ""]
    lines.append("ScnSet == {")
    lines.append(",\n".join("  " + tla(s) for s in scns))
    lines.append("}")
    lines.append(extra_defs)
    lines.append("====")
    return "\n".join(lines) + "\n"
