"""One compute node in isolation: the real JobQueue + the real AsyncCliCommand + the real GenericCommandParameters,
driven along *every* exit schedule at the grain of one `while need_to_rerun` iteration of _check_completions
(spec/NodeQueue.tla).  subprocess.Popen and time.sleep are replaced; the iterations are observed through the
queue's own debug log records ("check for completions", "found num_completed=%s", "Completed a job %s"), so JADE
itself is untouched.

An observation = (input, schedule, events, rows of the node's result file, how it ended); TLC compares the events with
NodeQueue!Run(in, sched) and judges the node-level clauses of C02 / C04 / C06."""
import csv
import itertools
import logging
import os
import shutil
import tempfile

NAMES = "ABCDEFGHIJKL"


# ------------------------------------------------------------------------------------------------ input spaces
def acyclic(hb):
    left = set(hb)
    while left:
        ready = {j for j in left if not (set(hb[j]) & left)}
        if not ready:
            return False
        left -= ready
    return True


def all_inputs(n, maxfail, depths):
    """Same space as NodeQueue!AllInputs(n, maxfail, depths)."""
    js = list(NAMES[:n])
    subsets = [list(c) for r in range(n + 1) for c in itertools.combinations(js, r)]
    for blk in itertools.product(subsets, repeat=n):
        hb = {j: list(b) for j, b in zip(js, blk)}
        if not acyclic(hb):
            continue
        for fl in itertools.product([False, True], repeat=n):
            for rc in itertools.product([0, 1], repeat=n):
                if sum(1 for x in rc if x) > maxfail:
                    continue
                for d in depths:
                    yield {"jobs": js, "hb": hb, "flag": dict(zip(js, fl)), "rc": dict(zip(js, rc)), "depth": d, "nolaunch": []}


def nolaunch_inputs(n, depths):
    """Same space as NodeQueue!NoLaunchInputs(n, depths): one job whose command cannot be started."""
    js = list(NAMES[:n])
    subsets = [list(c) for r in range(n + 1) for c in itertools.combinations(js, r)]
    for blk in itertools.product(subsets, repeat=n):
        hb = {j: list(b) for j, b in zip(js, blk)}
        if not acyclic(hb):
            continue
        for fl in itertools.product([False, True], repeat=n):
            for d in depths:
                for x in js:
                    yield {"jobs": js, "hb": hb, "flag": dict(zip(js, fl)), "rc": {j: 0 for j in js}, "depth": d, "nolaunch": [x]}


def inputs_small():
    return list(all_inputs(1, 1, [1])) + list(all_inputs(2, 2, [1, 2])) + list(all_inputs(3, 3, [1, 2, 3])) + \
        list(nolaunch_inputs(2, [1, 2])) + list(nolaunch_inputs(3, [1, 2, 3]))


# ------------------------------------------------------------------------------------------------ the driver
class NeedMore(Exception):
    """The schedule ended before the queue did."""


class Unobservable(Exception):
    """The queue's iterations cannot be observed on this tree (the debug records / private methods the driver taps are not
    there any more -- e.g. after a refactoring of job_queue.py): the iteration-grain comparison is skipped, nothing is
    concluded from it.  The node-level clauses stay covered by the whole-submission runs."""


class _Driver:
    sleeps = 0                      # sleeps of the queue since the last observed iteration

    def __init__(self, inp, sched):
        self.inp, self.sched = inp, sched
        self.k = 0                  # iterations begun
        self.alive = set()          # processes started and not exited
        self.exited = set()         # processes exited
        self.ev = []
        self.state = "idle"         # idle | polling | after_poll
        self.rerun = False          # the iteration that found the schedule exhausted is a re-run iteration

    def begin_iteration(self, rerun):
        if self.k >= len(self.sched):
            self.rerun = rerun
            raise NeedMore()
        for j in self.sched[self.k]:
            if j in self.alive:
                self.alive.discard(j)
                self.exited.add(j)
        self.k += 1
        self.sleeps = 0
        self.state = "polling"


_DRV = [None]


class _FakePopen:
    def __init__(self, cmd, env=None, stdout=None, stderr=None, **kw):
        self.name = env["JADE_JOB_NAME"]
        if self.name in _DRV[0].inp.get("nolaunch", []):
            raise FileNotFoundError(2, "No such file or directory", cmd[0])
        self.returncode = None
        self.pid = 4000 + NAMES.index(self.name)
        _DRV[0].alive.add(self.name)

    def poll(self):
        d = _DRV[0]
        if d.state == "after_poll":
            d.begin_iteration(True)       # the first poll of a re-run iteration
        if self.returncode is None and self.name in d.exited:
            self.returncode = d.inp["rc"][self.name]
        return self.returncode


class _Tap(logging.Handler):
    def emit(self, record):
        d = _DRV[0]
        if d is None:
            return
        msg = record.msg
        if msg == "check for completions":
            d.begin_iteration(False)
        elif msg == "found num_completed=%s":
            if d.state == "after_poll":
                d.begin_iteration(True)   # a re-run iteration that polled no process (only canceled jobs outstanding)
            d.state = "after_poll"
        elif msg == "Completed a job %s":
            d.ev.append(["done", record.args[0]])


_INSTALLED = {}


def _install():
    if _INSTALLED:
        return _INSTALLED
    import jade.jobs.job_queue as jq
    import jade.jobs.async_cli_command as acc
    if not all(hasattr(acc.AsyncCliCommand, a) for a in ("run", "cancel", "_complete")) or not hasattr(jq, "time"):
        raise Unobservable("AsyncCliCommand.run/cancel/_complete or job_queue.time not found")
    real_run, real_cancel, real_complete = acc.AsyncCliCommand.run, acc.AsyncCliCommand.cancel, acc.AsyncCliCommand._complete

    def run_(self):
        r = real_run(self)
        if not hasattr(_DRV[0].queue, "_outstanding_jobs"):
            raise Unobservable("JobQueue._outstanding_jobs not found")
        _DRV[0].ev.append(["start", self.name, len(_DRV[0].queue._outstanding_jobs) + 1])
        return r

    def cancel_(self):
        r = real_cancel(self)
        _DRV[0].ev.append(["cancel", self.name])
        return r

    def complete_(self):
        r = real_complete(self)
        _DRV[0].ev.append(["result", self.name])
        return r

    acc.AsyncCliCommand.run, acc.AsyncCliCommand.cancel, acc.AsyncCliCommand._complete = run_, cancel_, complete_
    import time as _time
    import types
    # module-local shims: the real subprocess and time modules stay as they are for everybody else
    acc.subprocess = types.SimpleNamespace(Popen=_FakePopen)
    def _sleep(_s):
        d = _DRV[0]
        if d is not None:
            d.sleeps += 1
            # a whole polling cycle went by and no iteration was observed: the records the driver listens for are gone
            if d.sleeps >= 3:
                raise Unobservable("no iteration of _check_completions observed across three polling cycles")
    jq.time = types.SimpleNamespace(sleep=_sleep, time=_time.time)
    logger = logging.getLogger("jade.jobs.job_queue")
    logger.setLevel(logging.DEBUG)
    logger.propagate = False
    logger.addHandler(_Tap(level=logging.DEBUG))
    for name in ("jade.jobs.async_cli_command", "jade.jobs.results_aggregator", "jade.events"):
        logging.getLogger(name).setLevel(logging.ERROR)
    base = tempfile.mkdtemp(prefix="nq", dir=os.environ.get("VERIF_SCRATCH") or ("/dev/shm" if os.path.isdir("/dev/shm") else None))
    _INSTALLED.update(jq=jq, acc=acc, base=base)
    import atexit
    atexit.register(shutil.rmtree, base, True)
    return _INSTALLED


def run_queue(inp, sched):
    """Run the real queue for `inp` along `sched` (this process is dedicated to it: the module patches stay in place)."""
    from jade.extensions.generic_command import GenericCommandParameters
    from jade.common import JOBS_STDIO_DIR, RESULTS_DIR
    env = _install()
    jq, acc = env["jq"], env["acc"]
    out = os.path.join(env["base"], "out")
    shutil.rmtree(out, ignore_errors=True)
    os.makedirs(os.path.join(out, JOBS_STDIO_DIR))
    os.makedirs(os.path.join(out, RESULTS_DIR))
    drv = _Driver(inp, sched)
    _DRV[0] = drv
    jobs = []
    for j in inp["jobs"]:
        p = GenericCommandParameters(name=j, command=f"vjob {j}", blocked_by=set(inp["hb"][j]),
                                     cancel_on_blocking_job_failure=inp["flag"][j])
        jobs.append(acc.AsyncCliCommand(p, p.command, out, 1, True, "77"))
    end, err = "done", ""
    q = jq.JobQueue(inp["depth"], poll_interval=1, monitor_func=None, monitor_interval=None)
    drv.queue = q
    try:
        q.run(jobs)
    except NeedMore:
        end = "more"
    except Unobservable:
        raise
    except Exception as e:     # noqa
        end, err = "error", f"{type(e).__name__}: {e}"
    finally:
        _DRV[0] = None
        for j in jobs:             # silence "destructed while pending"
            j._is_pending = False
            for fp in (j._stdout_fp, j._stderr_fp):
                try:
                    fp and fp.close()
                except Exception:
                    pass
    rows = []
    path = os.path.join(out, RESULTS_DIR, "results_batch_1.csv")
    if os.path.exists(path):
        with open(path, newline=None) as f:
            for rec in csv.DictReader(f):
                rows.append([rec["name"], int(rec["return_code"]), rec["status"]])
    return {"in": inp, "sched": [list(x) for x in sched[:drv.k]], "ev": drv.ev, "rows": rows, "end": end, "err": err,
            "alive": sorted(drv.alive), "rerun": drv.rerun}


def _same_as_before(inp, sched, o):
    prev = run_queue(inp, sched[:-1])
    return prev["ev"] == o["ev"]


def explore(inp, limit=4000):
    """Every exit schedule of `inp` (depth-first, re-executing from the start for each prefix); returns the final
    observations: runs that ended, runs that raised, and runs that can never end (nothing alive, queue not empty)."""
    out = []
    stack = [[]]
    runs = 0
    while stack:
        sched = stack.pop()
        o = run_queue(inp, sched)
        runs += 1
        if runs > limit:
            raise RuntimeError("schedule space larger than expected")
        if o["end"] != "more":
            out.append(o)
            continue
        alive = o["alive"]
        subsets = [list(c) for r in range(1, len(alive) + 1) for c in itertools.combinations(alive, r)]
        if o["rerun"]:
            subsets.append([])          # a re-run iteration happens whether or not somebody exits
        if not subsets:
            # nothing alive and no re-run iteration pending: further polls (empty exit sets) either move the queue or
            # change nothing any more -- only then it is stuck (the queue still waits, for ever)
            if len(sched) >= 2 and sched[-1] == [] and sched[-2] == [] and _same_as_before(inp, sched, o):
                o["end"] = "stuck"
                out.append(o)
                continue
            subsets = [[]]
        for x in subsets:
            stack.append(sched + [x])
    for o in out:
        o.pop("alive", None)
        o.pop("rerun", None)
        o["runs"] = runs
    return out


def explore_many(inputs):
    res = []
    for inp in inputs:
        res.extend(explore(inp))
    return res


# ------------------------------------------------------------------------------------------------ larger inputs, sampled
def random_input(rng, n_min=5, n_max=9):
    """A cancellation-heavy batch: a forest of dependents below one or two failing jobs (most of them flagged), some
    independent jobs, a small process limit."""
    n = rng.randint(n_min, n_max)
    js = list(NAMES[:n])
    order = js[:]
    rng.shuffle(order)
    pos = {j: i for i, j in enumerate(order)}
    nindep = rng.randint(0, 3)
    hb = {}
    for j in js:
        earlier = [k for k in js if pos[k] < pos[j]]
        if not earlier or pos[j] >= n - nindep:
            hb[j] = []
        else:
            k = rng.choice(earlier[-4:])
            hb[j] = sorted({k} | ({rng.choice(earlier)} if rng.random() < 0.25 else set()))
    roots = [j for j in js if not hb[j]]
    fails = set(rng.sample(roots, min(len(roots), rng.randint(1, 2))))
    if rng.random() < 0.3:
        fails.add(rng.choice(js))
    return {"jobs": js, "hb": hb, "flag": {j: rng.random() < 0.8 for j in js}, "rc": {j: int(j in fails) for j in js},
            "depth": rng.choice([1, 1, 2, 3]), "nolaunch": []}


def random_run(inp, seed):
    """One random exit schedule of `inp` (extended step by step; exits are lazy: a job tends to run for several polls)."""
    import random
    rng = random.Random(seed)
    sched = []
    for _ in range(200):
        o = run_queue(inp, sched)
        if o["end"] != "more":
            break
        alive = o["alive"]
        x = [j for j in alive if rng.random() < 0.35]
        if not x and alive and not o["rerun"] and rng.random() < 0.7:
            x = [rng.choice(alive)]
        if not alive and not o["rerun"]:
            if len(sched) >= 2 and sched[-1] == [] and sched[-2] == [] and _same_as_before(inp, sched, o):
                o["end"] = "stuck"
                break
            x = []
        sched.append(x)
    o.pop("alive", None)
    o.pop("rerun", None)
    return o
