"""Hand-picked small scenarios on which JadeImpl is explored exhaustively (every interleaving)."""
import copy


def G(name="default", size=1, tb=False, tryadd=False, procs=1, **kw):
    g = {"name": name, "tb": tb, "size": 0 if tb else size, "tryadd": tryadd, "procs": procs, "dry": False,
         "partition": "", "qos": "", "mem": "", "verbose": False}
    g.update(kw)
    return g


def scn(jobs, blk=None, flag=(), rc=None, est=None, groups=None, grp=None, maxnodes=2, cpus=2, **kw):
    groups = groups or [G()]
    s = {"jobs": list(jobs), "blk": {j: sorted((blk or {}).get(j, [])) for j in jobs},
         "flag": {j: j in flag for j in jobs}, "rc": {j: (rc or {}).get(j, 0) for j in jobs},
         "est": {j: (est or {}).get(j, 0) for j in jobs},
         "grp": {j: (grp or {}).get(j, groups[0]["name"]) for j in jobs}, "groups": groups,
         "maxnodes": maxnodes, "mode": "hpc", "cpus": cpus, "locklib": "never", "hooks": {}, "hook_rc": {},
         "reports": False, "sbatch_fail": {}, "squeue_fail": 0, "faults": False, "nodefaults": False}
    s.update(kw)
    return s


def protocol_quick():
    return [
        # a failing job with a flagged dependent that lands in a later round (canceled by a submitter)
        scn("ABC", blk={"B": ["A"]}, flag="B", rc={"A": 1}, maxnodes=2),
        # chain placed in one batch by try-add-blocked, second batch later; one node at a time
        scn("ABC", blk={"B": ["A"], "C": ["B"]}, groups=[G(size=2, tryadd=True, procs=2)], maxnodes=1),
        # independent jobs, one node at a time: completion needs the nodes' own rounds
        scn("ABC", groups=[G(size=1)], maxnodes=1),
        # flagged chain inside one batch: cancellation on the node
        scn("ABC", blk={"B": ["A"], "C": ["B"]}, flag="BC", rc={"A": 2}, groups=[G(size=3, tryadd=True, procs=1)], maxnodes=0),
        # listing order against dependency order
        scn("ABC", blk={"A": ["C"]}, flag="A", rc={"C": 1}, groups=[G(size=2, tryadd=True, procs=2)], maxnodes=2),
        # --no-distributed-submitter: the nodes run no round of their own, only the user's try-submit-jobs moves things
        scn("ABC", blk={"C": ["A"]}, flag="C", rc={"B": 1}, groups=[G(size=1)], maxnodes=2, dist=False),
    ]


def protocol_thorough():
    out = protocol_quick()
    out += [
        scn("ABCD", blk={"B": ["A"], "C": ["A"], "D": ["B", "C"]}, flag="D", rc={"C": 1}, groups=[G(size=2, tryadd=False, procs=2)], maxnodes=2),
        scn("ABCD", blk={"D": ["A"]}, groups=[G(tb=True, tryadd=True, procs=1)], est={"A": 5, "B": 5, "C": 8, "D": 3}, maxnodes=2),
        scn("ABCD", blk={"C": ["A"], "D": ["B"]}, flag="CD", rc={"A": 1}, groups=[G("g0", size=1), G("g1", size=2, tryadd=True, procs=2)],
            grp={"A": "g0", "B": "g1", "C": "g0", "D": "g1"}, maxnodes=2),
    ]
    return out
