"""Controller of the conformance harness: virtual processes (forked, running the unmodified
jade code behind harness/boundary.py), a simulated SLURM, a virtual clock, and the recorder of
observable events.  Exactly one virtual process runs at a time; a run is a deterministic
function of (scenario, sequence of moves)."""
import json
import os
import shutil
import re
import select
import signal
import sys
import time as _realtime

REPO = os.environ.get("VERIF_REPO", "/repo")
VERIF = os.path.dirname(os.path.dirname(os.path.abspath(__file__)))
if REPO not in sys.path:
    sys.path.insert(0, REPO)
if VERIF not in sys.path:
    sys.path.insert(0, VERIF)

_real_time = _realtime.time
_real_sleep = _realtime.sleep

from harness import project  # noqa: E402

HOOKS = {"vsetup": "setup", "vteardown": "teardown", "vnsetup": "nsetup", "vnteardown": "nteardown"}
CLUSTER_LOCK = "cluster_config.json.lock"
STATE_AUDIT_PAT = (r"^(cluster_config\.json|job_status\.json|config_version\.txt|job_status_version\.txt|"
                   r"cluster_config\.json\.bk|job_status\.json\.bk|submitter\.lock|cluster_config\.json\.lock|"
                   r"processed_results\.csv|results_batch_\d+\.csv|processed_results\.csv\.lock|results_batch_\d+\.csv\.lock|results\.json|config_batch_\d+\.json|"
                   r"run_batch_\d+\.sh|.*_batch_\d+\.sh|pipeline\.json|submitter_groups\.json|config\.json)$")


def warm():
    """Import jade once in the controller so that forks are cheap."""
    import jade.cli.jade  # noqa
    import jade.cli.jade_internal  # noqa
    from jade.extensions.registry import Registry
    Registry()


class HarnessError(Exception):
    """Something went wrong in the machinery (never a property verdict)."""


class VProc:
    def __init__(self, world, pid, kind, host, vp, parent=None, batch=None, label=""):
        self.world = world
        self.pid = pid
        self.kind = kind          # "cli" / "api"
        self.label = label        # e.g. "submit-jobs", "run-jobs", "try-submit-jobs"
        self.host = host
        self.parent = parent      # handle number in the parent's process
        self.batch = batch        # hpc id of the batch this process belongs to (node processes)
        self.req = None
        self.alive = True
        self.idle = 0             # consecutive sleeps without another boundary operation
        self.nops = 0             # boundary operations answered so far
        self.nsteps = 0           # scheduling steps (parked operations answered) so far
        self.last_sub_before = ""
        self.deferred = []        # events announced by the process that take effect with its next visible operation
        self.buf = b""
        c2p_r, c2p_w = os.pipe()
        p2c_r, p2c_w = os.pipe()
        sys.stdout.flush()
        sys.stderr.flush()
        ospid = os.fork()
        if ospid == 0:
            try:
                os.close(c2p_r)
                os.close(p2c_w)
                for q in world.procs:
                    if not q.alive:
                        continue
                    for fd in (q.rfd, q.wfd):
                        try:
                            os.close(fd)
                        except OSError:
                            pass
                signal.signal(signal.SIGALRM, signal.SIG_DFL)
                signal.alarm(0)
                from harness import boundary
                boundary.child_main(p2c_r, c2p_w, vp)
            finally:
                os._exit(98)
        os.close(c2p_w)
        os.close(p2c_r)
        self.ospid = ospid
        self.rfd = c2p_r
        self.wfd = p2c_w

    def read(self, timeout):
        """Block until the child's next request arrives."""
        deadline = _real_time() + timeout
        while b"\n" not in self.buf:
            left = deadline - _real_time()
            if left <= 0:
                return None
            r, _, _ = select.select([self.rfd], [], [], left)
            if not r:
                return None
            chunk = os.read(self.rfd, 1 << 16)
            if not chunk:
                return {"op": "exit", "code": -1, "exc": "DIED", "tb": ""}
            self.buf += chunk
        line, self.buf = self.buf.split(b"\n", 1)
        return json.loads(line)

    def send(self, rep):
        data = (json.dumps(rep) + "\n").encode()
        while data:
            n = os.write(self.wfd, data)
            data = data[n:]

    def reap(self, kill=False):
        if kill:
            try:
                os.kill(self.ospid, signal.SIGKILL)
            except ProcessLookupError:
                pass
        self.alive = False
        for fd in (self.rfd, self.wfd):
            try:
                os.close(fd)
            except OSError:
                pass
        try:
            os.waitpid(self.ospid, 0)
        except ChildProcessError:
            pass


class World:
    AUTO_NORMAL = {"poll", "api", "lock_acquired", "lock_released", "terminate", "begin"}
    AUTO_FAULT = {"poll", "api", "terminate", "begin"}

    def __init__(self, scn, base, fault_mode=False, hang_timeout=60.0, debug=False):
        self.scn = scn
        self.base = base                      # scratch directory of this scenario
        self.out = os.path.join(base, "out")  # the JADE output directory (may be re-pointed)
        self.watch_dirs = [self.out]
        self.pdir = None                      # pipeline directory, if any
        self.fault_mode = fault_mode
        self.auto = self.AUTO_FAULT if fault_mode else self.AUTO_NORMAL
        self.locklib = scn.get("locklib", "never")
        self.hang_timeout = hang_timeout
        self.debug = debug
        self.procs = []
        self.batches = {}       # hpc id -> dict(b, state, argv, jobs, grp, out)
        self.next_id = 100
        self.handles = {}       # h -> dict
        self.nh = 0
        self.now = 1000.0
        self.trace = []
        self.moves = []         # the schedule actually taken (for replay files)
        self.seen_files = {}    # watched file -> (mtime_ns, size, ino)
        self.last_status = {}   # out dir -> status projection
        self.sbatch_plan = dict(scn.get("sbatch_fail", {}))   # batch number (str) -> failing attempts
        self.squeue_fail = int(scn.get("squeue_fail", 0))     # failing squeue attempts still to inject
        self.squeue_skip = int(scn.get("squeue_skip", 0))     # ... after this many successful attempts
        self.squeue_empty = int(scn.get("squeue_empty", 0))   # status queries answered "no jobs" (exit 0) although batches are
        # status answers that show the active batches in states JADE does not map (RUNNING batch displayed SUSPENDED, PENDING
        # one REQUEUED -- an administrator suspended the partition for a moment): not a fault, the batches are as active as before
        self.squeue_odd = int(scn.get("squeue_odd", 0))
        self.squeue_odd_skip = int(scn.get("squeue_odd_skip", 0))
        self.squeue_empty_skip = int(scn.get("squeue_empty_skip", 0))   # active (controller restart) ... after this many
        self.faults_armed = {}  # pid -> dict(op=..., n=...)
        self.cwd = None         # working directory of the virtual processes (pipelines: auto-config files are relative)
        self.autoconfig = {}    # stage number (str) -> dict(src=<config file to deliver>, rc=<exit code>)
        self.steps = 0

    # ------------------------------------------------------------------ recording
    def ev(self, **e):
        self.trace.append(e)
        if self.debug:
            print("EV", json.dumps(e)[:300], file=sys.__stderr__)

    # ------------------------------------------------------------------ processes
    def spawn(self, argv=None, host="login", env=None, parent=None, batch=None, kind="cli",
              module=None, func=None, args=None, label=None, nested=False):
        pid = len(self.procs) + 1
        label = label or (argv[1] if argv else func)
        vp = {"pid": pid, "kind": kind, "host": host, "env": env or {}, "argv": argv,
              "module": module, "func": func, "args": args or {}, "root": self.base, "now": self.now,
              "audit": STATE_AUDIT_PAT if self.fault_mode else None, "cwd": self.cwd,
              "log": os.path.join(self.base, f"vp{pid}.log") if self.debug else None}
        p = VProc(self, pid, kind, host, vp, parent=parent, batch=batch, label=label)
        self.procs.append(p)
        self.ev(e="proc", pid=pid, k=label, host=host, nested=bool(nested), b=self._bnum(batch),
                flags=[x for x in (argv or []) if x.startswith("--")])
        self._next_request(p)
        return p

    def _store_snapshot(self):
        """Bytes of the four cluster files (+ what the version files and the submitter field say)."""
        d = self.out
        data = []
        for n in ("cluster_config.json", "config_version.txt", "job_status.json", "job_status_version.txt"):
            try:
                with open(os.path.join(d, n), "rb") as f:
                    data.append(f.read())
            except FileNotFoundError:
                data.append(None)
        st = project.read_status(d) or {"sub": "", "cverf": -1, "jverf": -1, "cver": -1, "jver": -1}
        return {"bytes": data, "sub": st["sub"], "cverf": project._read_int(os.path.join(d, "config_version.txt")),
                "jverf": project._read_int(os.path.join(d, "job_status_version.txt")), "cver": st["cver"], "jver": st["jver"]}

    def _flush(self, p):
        for evd in p.deferred:
            self.ev(**evd)
        p.deferred = []

    def _bnum(self, hid):
        if hid is None or hid not in self.batches:
            return -1
        return self.batches[hid]["b"]

    def proc(self, pid):
        return self.procs[pid - 1]

    def _next_request(self, p):
        """Read p's next request; run arrival hooks; answer auto ops at once."""
        while True:
            req = p.read(self.hang_timeout)
            if req is None:
                self.ev(e="hang", pid=p.pid, k=p.label, host=p.host)
                p.reap(kill=True)
                self._on_exit(p, -1, "HANG", "")
                return
            p.req = req
            self._on_arrive(p, req)
            if not p.alive:
                return
            if req["op"] == "exit":
                p.reap()
                self._on_exit(p, req["code"], req.get("exc", ""), req.get("tb", ""))
                return
            if req["op"] in self.auto and not self._is_blocking(p):
                self._answer(p)
                continue
            return

    def _is_blocking(self, p):
        return False

    # ------------------------------------------------------------------ arrival hooks (state right after the operation)
    def _on_arrive(self, p, r):
        op = r["op"]
        if op in ("lock_try", "lock_blocked", "lock_acquired", "lock_released"):
            base = os.path.basename(r["path"])
            d = os.path.dirname(r["path"])
            if op == "lock_acquired" and base == CLUSTER_LOCK:
                st = project.read_status(d)
                p.last_sub_before = st["sub"] if st else ""
            if op == "lock_released":
                if base == CLUSTER_LOCK:
                    st = project.read_status(d)
                    p.last_sub_after = st["sub"] if st else ""      # what the operation left behind, read before anybody else moves
                    self._snap_status(d, p)
                elif base.endswith(".csv.lock"):
                    top = d if base.startswith("processed") else os.path.dirname(d)
                    # the result files are looked at only while nobody is inside a critical section on any of them (with
                    # file operations as scheduling points a process can be parked in the middle of one)
                    if not (self.fault_mode and self._csv_lock_held(top)):
                        self._snap_rows(top, p, base)
        elif op == "api":
            self._api(p, r)
        self._watch(p)

    def _snap_status(self, d, p, force=False):
        st = project.read_status(d)
        if st is None:
            return
        if os.path.exists(os.path.join(d, CLUSTER_LOCK)):
            return   # not readable now
        key = {k: v for k, v in st.items() if k != "marker"}
        if not force and self.last_status.get(d) == key:
            return     # nothing a reader of the status files could tell apart from the previous lock-free instant
        self.last_status[d] = key
        st["rows"] = project.names_with_rows(d)
        st["idb"] = sorted(self._bnum(h) for h in st.get("ids", []))      # the recorded HPC ids as batch numbers
        self.ev(e="status", pid=p.pid if p else 0, dir=self._dname(d), **st)

    def _csv_lock_held(self, top):
        import glob as _glob
        return bool(_glob.glob(os.path.join(top, "*.csv.lock")) or _glob.glob(os.path.join(top, "results", "*.csv.lock")))

    def _snap_rows(self, d, p, lockname):
        r = project.read_rows(d)
        self.ev(e="rows", pid=p.pid, dir=self._dname(d), lock=lockname,
                proc=r["proc"] if r["proc"] is not None else [], hasproc=r["proc"] is not None,
                node=[[b, rows] for b, rows in sorted(r["node"].items())],
                ok=bool(r["proc_ok"] and r["node_ok"]))

    def _dname(self, d):
        d = os.path.abspath(d)
        if d == os.path.abspath(self.out):
            return "out"
        return os.path.basename(d)

    def _api(self, p, r):
        name = r["name"]
        if name == "promote":
            d = r["path"]
            st = project.read_status(d)
            after = getattr(p, "last_sub_after", None)
            if after is None or r.get("create"):
                after = st["sub"] if st else ""
            self.ev(e="promote", pid=p.pid, host=p.host, ok=r["ok"], exc=r["exc"], dir=self._dname(d),
                    before=("" if r.get("create") else p.last_sub_before), after=after, create=bool(r.get("create")))
            p.last_sub_after = None
        elif name == "demote":
            self.ev(e="demote", pid=p.pid, host=p.host, ok=r["ok"], exc=r["exc"], dir=self._dname(r["path"]))
        elif name == "cop_begin":
            p.cop = {"op": r["cop"], "hcver": r["hcver"], "hjver": r["hjver"], "loaded": r["loaded"], "pre": None}
        elif name == "crash_here":
            # an operation scripted to die at this point (between two file writes of one update)
            self.kill_proc(p, why="crash plan")
        elif name == "cop_end":
            c = getattr(p, "cop", None) or {"op": "?", "hcver": -1, "hjver": -1, "loaded": False, "pre": None}
            pre = c["pre"] or self._store_snapshot()
            post = self._store_snapshot()
            wc = c["op"] in ("loadp", "promote", "demote", "cancel", "update")
            self.ev(e="cop", pid=p.pid, host=p.host, op=c["op"], hcver=c["hcver"], hjver=c["hjver"], loaded=c["loaded"],
                    dcver=pre["cverf"], djver=pre["jverf"], ddcver=pre["cver"], ddjver=pre["jver"], before=pre["sub"],
                    exc=r["exc"], ok=r["ok"],
                    changed=pre["bytes"] != post["bytes"], wcfg=wc, wjs=c["op"] in ("update", "jsonly"))
            p.cop = None
        elif name == "collected":
            self.ev(e="collected", pid=p.pid, dir=self._dname(os.path.dirname(r["path"])), rows=r["rows"])
        elif name in ("append", "appended"):
            base = os.path.basename(r["path"])
            m = re.search(r"results_batch_(\d+)\.csv", base)
            d = os.path.dirname(r["path"])
            if m:
                d = os.path.dirname(d)
            evd = dict(e=name, pid=p.pid, dir=self._dname(d), file=(int(m.group(1)) if m else -1), row=r["row"])
            if name == "append":
                # the writer announces the row before it takes the file's lock; the announcement belongs to the
                # visible operation that performs the append (its next step)
                p.deferred.append(evd)
            else:
                self.ev(**evd)
        elif name == "recreated":
            self.ev(e="recreated", pid=p.pid)
        else:
            self.ev(e="api", pid=p.pid, name=name, data={k: v for k, v in r.items() if k not in ("op", "name")})

    def _watch(self, p):
        """Detect writes of the files whose content is an observable of its own."""
        for d in list(self.watch_dirs):
            # status files rewritten without the cluster lock (prepare_for_resubmission): still readable by anybody
            try:
                sig = tuple(os.stat(os.path.join(d, n)).st_mtime_ns for n in ("cluster_config.json", "job_status.json"))
            except FileNotFoundError:
                sig = None
            if sig is not None and self.seen_files.get(("status", d)) != sig:
                if not os.path.exists(os.path.join(d, CLUSTER_LOCK)):
                    self.seen_files[("status", d)] = sig
                    if not self.fault_mode:
                        self._snap_status(d, p)
            try:
                entries = list(os.scandir(d))
            except FileNotFoundError:
                continue
            def _key(ent):
                mm = re.search(r"config_batch_(\d+)\.json$", ent.name)
                return (0, int(mm.group(1)), ent.name) if mm else (1, 0, ent.name)
            for ent in sorted(entries, key=_key):
                n = ent.name
                if n == "results.json" or n == "pipeline.json" or n == "submitter.lock" or \
                        (n.startswith("config_batch_") and n.endswith(".json")):
                    try:
                        s = ent.stat()
                    except FileNotFoundError:
                        continue
                    sig = (s.st_mtime_ns, s.st_size, s.st_ino)
                    key = ent.path
                    if self.seen_files.get(key) == sig:
                        continue
                    first = key not in self.seen_files
                    self.seen_files[key] = sig
                    self._file_event(p, d, n, ent.path, first)
            if os.path.join(d, "submitter.lock") in self.seen_files and \
                    not os.path.exists(os.path.join(d, "submitter.lock")):
                del self.seen_files[os.path.join(d, "submitter.lock")]
                self.ev(e="marker", on=False, pid=p.pid, dir=self._dname(d))

    def _file_event(self, p, d, n, path, first):
        if n == "results.json":
            s = project.read_summary(d)
            if s is not None:
                self.ev(e="summary", pid=p.pid, dir=self._dname(d), **s)
        elif n == "pipeline.json":
            s = project.read_pipeline(d)
            if s is not None:
                self.ev(e="pipeline", pid=p.pid, **s)
                for k in range(1, s["n"] + 1):
                    sd = os.path.join(d, f"output-stage{k}")
                    if sd not in self.watch_dirs:
                        self.watch_dirs.append(sd)
        elif n == "submitter.lock":
            self.ev(e="marker", on=True, pid=p.pid, dir=self._dname(d))
        else:
            m = re.search(r"config_batch_(\d+)\.json", n)
            c = project.read_batch_cfg(path)
            if c is not None:
                self.ev(e="cfgbatch", pid=p.pid, dir=self._dname(d), b=int(m.group(1)), rewrite=not first,
                        jobs=c["jobs"], hb=c["hb"], grp=c["grp"], rows=project.names_with_rows(d))

    # ------------------------------------------------------------------ moves
    def enabled(self):
        moves = []
        for p in self.procs:
            if p.alive and self._step_enabled(p):
                moves.append(("step", p.pid))
        for hid, b in self.batches.items():
            if b["state"] == "PENDING":
                moves.append(("start", hid))
        for h, hd in self.handles.items():
            if hd["type"] == "job" and hd["state"] == "running":
                moves.append(("jobexit", h))
        return moves

    def _step_enabled(self, p):
        r = p.req
        if r["op"] == "lock_blocked":
            return self._marker_gone_or_breakable(p, r["path"])
        if r["op"] == "wait":
            return self.handles[r["h"]]["state"] != "running"
        return True

    def _marker_gone_or_breakable(self, p, path):
        if not os.path.exists(path):
            return True
        if self.locklib != "modern":
            return False
        try:
            with open(path) as f:
                txt = f.read()
        except FileNotFoundError:
            return True
        if txt.strip() == "":
            return True     # malformed marker (JADE's deliberate one): broken after 2 s by filelock >= 3.13
        parts = txt.split("\n")
        try:
            owner = self.proc(int(parts[0]))
        except Exception:
            return True
        return (not owner.alive) and parts[1] == p.host

    def do(self, move):
        self.moves.append(list(move))
        self.steps += 1
        kind = move[0]
        if kind == "step":
            p = self.proc(move[1])
            if not p.alive:
                raise HarnessError(f"step of dead process {move}")
            self._flush(p)
            p.nsteps += 1
            self._answer(p)
            if p.alive:
                self._next_request(p)
        elif kind == "start":
            self._start_batch(move[1])
        elif kind == "jobexit":
            self._job_exit(move[1])
        elif kind == "kill":
            self.kill_proc(self.proc(move[1]), why=move[2] if len(move) > 2 else "kill")
        elif kind == "nodekill":
            self.kill_node(move[1], how=move[2] if len(move) > 2 else "kill")
        elif kind == "locktimeout":
            p = self.proc(move[1])
            self.ev(e="locktimeout", pid=p.pid, host=p.host, path=os.path.basename(p.req["path"]))
            p.send({"timeout": True, "now": self.now + 300})
            self.now += 300
            self._next_request(p)
        else:
            raise HarnessError(f"unknown move {move}")

    # ------------------------------------------------------------------ answering one request
    def _reply(self, p, **rep):
        rep["now"] = self.now
        p.nops += 1
        p.send(rep)

    def _answer(self, p):
        r = p.req
        op = r["op"]
        if op != "sleep" and op != "poll":
            p.idle = 0
        arm = self.faults_armed.get(p.pid)
        if op == "begin":
            return self._reply(p, ok=True)
        if op == "lock_try":
            if getattr(p, "cop", None) is not None and os.path.basename(r["path"]) == CLUSTER_LOCK:
                p.cop["pre"] = self._store_snapshot()
            if arm and arm["op"] == "lock" and self._arm_hit(p, arm):
                self.ev(e="fault", pid=p.pid, op="lock", path=os.path.basename(r["path"]))
                return self._reply(p, fail=True)
            return self._reply(p, ok=True)
        if op == "lock_blocked":
            path = r["path"]
            if os.path.exists(path) and self.locklib == "modern" and self._marker_gone_or_breakable(p, path):
                try:
                    os.unlink(path)
                    self.ev(e="lockbreak", pid=p.pid, host=p.host, path=os.path.basename(path))
                except FileNotFoundError:
                    pass
            return self._reply(p, ok=True)
        if op in ("lock_acquired", "lock_released"):
            return self._reply(p, ok=True)
        if op == "sleep":
            self.now += max(0.0, r["s"])
            p.idle += 1
            return self._reply(p, ok=True)
        if op == "popen":
            return self._popen(p, r)
        if op == "poll":
            hd = self.handles[r["h"]]
            if hd["state"] == "done":
                hd["polled"] = True
            return self._reply(p, rc=hd["rc"] if hd["state"] == "done" else None)
        if op == "wait":
            hd = self.handles[r["h"]]
            return self._reply(p, rc=hd["rc"] if hd["rc"] is not None else -9)
        if op == "terminate":
            hd = self.handles[r["h"]]
            if hd["state"] == "running":
                hd["state"] = "dead"
            return self._reply(p, ok=True)
        if op == "api":
            return self._reply(p, ok=True)
        if op == "audit":
            if arm and arm["op"] == "write" and self._arm_hit(p, arm):
                self.ev(e="fault", pid=p.pid, op="write", path=os.path.basename(r["path"]), what=r["what"])
                return self._reply(p, fail=True)
            return self._reply(p, ok=True)
        raise HarnessError(f"unknown op {op}")

    def _arm_hit(self, p, arm):
        """Faults are armed as 'the n-th matching operation from now fails'."""
        arm["n"] -= 1
        if arm["n"] <= 0:
            del self.faults_armed[p.pid]
            return True
        return False

    def arm_fault(self, pid, op, n=1):
        self.faults_armed[pid] = {"op": op, "n": n}

    # ------------------------------------------------------------------ external commands
    def _newh(self, **hd):
        self.nh += 1
        self.handles[self.nh] = hd
        return self.nh

    def _popen(self, p, r):
        argv = r["argv"]
        env = r.get("env") or {}
        a0 = os.path.basename(argv[0]) if argv else ""
        if "JADE_JOB_NAME" in env:
            return self._launch(p, r)
        if a0 == "sbatch":
            return self._sbatch(p, argv)
        if a0 == "squeue":
            return self._squeue(p, argv)
        if a0 == "scancel":
            return self._scancel(p, argv)
        if a0 in ("jade", "jade-internal"):
            h = self._newh(type="nested", state="running", rc=None, owner=p.pid)
            self.ev(e="cmd", pid=p.pid, host=p.host, argv=argv[:4] + [x for x in argv[4:] if x.startswith("--")],
                    nested=True)
            self._reply(p, h=h)
            self.spawn(argv=argv, host=p.host, env={}, parent=h, batch=p.batch, nested=True)
            return
        if a0 in HOOKS:
            which = HOOKS[a0]
            rc = int(self.scn.get("hook_rc", {}).get(which, 0))
            hout = env.get("JADE_RUNTIME_OUTPUT", "")
            live = sum(1 for hd in self.handles.values()
                       if hd["type"] == "job" and hd["state"] == "running" and hd["owner"] == p.pid)
            self.ev(e="hook", which=which, pid=p.pid, host=p.host, b=self._bnum(p.batch), argv=argv,
                    out=hout, envok=os.path.abspath(hout) == os.path.abspath(self.out) if hout else False,
                    grp=env.get("JADE_SUBMISSION_GROUP", ""), rc=rc, dir=self._dname(hout) if hout else "out",
                    rows=project.names_with_rows(hout) if hout else [], live=live)
            h = self._newh(type="quick", state="done", rc=rc, owner=p.pid)
            return self._reply(p, h=h, rc=rc, stdout="", stderr="")
        if a0 == "vautoconfig":
            # a pipeline stage's auto-config command: it sees the pipeline status file and must leave config-stage<k>.json
            k = argv[1]
            plan = self.autoconfig.get(k, {})
            rc = int(plan.get("rc", 0))
            pj = project.read_pipeline(os.path.dirname(env.get("JADE_PIPELINE_STATUS_FILE", "")) or self.out) or \
                {"stage": -1, "rcs": [], "complete": False}
            self.ev(e="autoconfig", pid=p.pid, k=int(k), envstage=int(env.get("JADE_PIPELINE_STAGE_ID", "-1") or -1),
                    envout=env.get("JADE_PIPELINE_OUTPUT_DIR", ""), stage=pj["stage"], rcs=pj["rcs"], rc=rc)
            if rc == 0 and plan.get("src"):
                shutil.copyfile(plan["src"], os.path.join(self.cwd or os.getcwd(), f"config-stage{k}.json"))
            h = self._newh(type="quick", state="done", rc=rc, owner=p.pid)
            return self._reply(p, h=h, rc=rc, stdout="", stderr="")
        self.ev(e="unknowncmd", pid=p.pid, argv=argv)
        h = self._newh(type="quick", state="done", rc=127, owner=p.pid)
        return self._reply(p, h=h, rc=127, stdout="", stderr="command not found")

    def _launch(self, p, r):
        env = r["env"]
        job = env["JADE_JOB_NAME"]
        h = self._newh(type="job", state="running", rc=None, owner=p.pid, job=job, batch=p.batch)
        live = sum(1 for hd in self.handles.values()
                   if hd["type"] == "job" and hd["state"] == "running" and hd["owner"] == p.pid)
        out = env.get("JADE_RUNTIME_OUTPUT", self.out)
        self.ev(e="launch", job=job, pid=p.pid, host=p.host, b=self._bnum(p.batch), argv=r["argv"],
                out=env.get("JADE_RUNTIME_OUTPUT", ""), so=os.path.basename(r.get("stdout") or ""),
                se=os.path.basename(r.get("stderr") or ""), rows=project.names_with_rows(out), live=live,
                dir=self._dname(out))
        if self.scn.get("jobevents"):
            # a job of an extension that logs structured events of its own (jade.events into job-outputs/<job>/events.log): one
            # event when it starts, one when it ends, through a file handle it keeps open for its whole life -- like the real
            # process, whose later writes go to the same inode whatever happens to the directory entry meanwhile
            d = os.path.join(out, "job-outputs", job)
            os.makedirs(d, exist_ok=True)
            self.__dict__.setdefault("_evfh", {})[self.handles[h]["job"]] = open(os.path.join(d, "events.log"), "a")
            self._job_event(self.handles[h], "start")
        return self._reply(p, h=h)

    def _job_event(self, hd, phase):
        fh = self.__dict__.get("_evfh", {}).get(hd["job"])
        if fh is None or fh.closed:
            return
        self.jobevents_written = getattr(self, "jobevents_written", 0) + 1
        fh.write(json.dumps({"category": "verif", "data": {"job": hd["job"], "phase": phase}, "event_class": "StructuredLogEvent",
                             "message": "job event", "name": "verif_job_event", "source": hd["job"],
                             "timestamp": f"2020-01-01 00:00:00.{self.jobevents_written:06d}"}, sort_keys=True) + "\n")
        fh.flush()
        if phase == "end":
            fh.close()

    def _active(self):
        return sum(1 for b in self.batches.values() if b["state"] in ("PENDING", "RUNNING"))

    def _sbatch(self, p, argv):
        script = argv[1]
        m = re.search(r"_batch_(\d+)\.sh$", script)
        b = int(m.group(1)) if m else -1
        opts, target = project.parse_sbatch_script(script)
        run = project.parse_run_script(target) if target else None
        cfgfile = run[2] if run else None
        cfg = project.read_batch_cfg(cfgfile) if cfgfile else None
        out = os.path.dirname(os.path.abspath(script))
        left = int(self.sbatch_plan.get(str(b), 0))
        base = dict(pid=p.pid, host=p.host, b=b, dir=self._dname(out), opts=opts,
                    run=(run[3:] if run else []), jobs=(cfg["jobs"] if cfg else []),
                    hb=(cfg["hb"] if cfg else []), grp=(cfg["grp"] if cfg else []),
                    rows=project.names_with_rows(out))
        h = self._newh(type="quick", state="done", rc=0, owner=p.pid)
        if left > 0:
            self.sbatch_plan[str(b)] = left - 1
            self.ev(e="sbatch", ok=False, id="", active=self._active(), **base)
            return self._reply(p, h=h, rc=1, stdout="", stderr="sbatch: error: Batch job submission failed: Socket timed out")
        hid = str(self.next_id)
        self.next_id += 1
        self.batches[hid] = {"b": b, "state": "PENDING", "argv": run, "jobs": cfg["jobs"] if cfg else [],
                             "out": out, "grp": cfg["grp"] if cfg else []}
        self.ev(e="sbatch", ok=True, id=hid, active=self._active(), **base)
        return self._reply(p, h=h, rc=0, stdout=f"Submitted batch job {hid}\n", stderr="")

    def _squeue(self, p, argv):
        h = self._newh(type="quick", state="done", rc=0, owner=p.pid)
        if self.squeue_skip > 0:
            self.squeue_skip -= 1
        elif self.squeue_fail > 0:
            self.squeue_fail -= 1
            self.ev(e="squeue", pid=p.pid, ok=False, ans=[])
            return self._reply(p, h=h, rc=1, stdout="", stderr="slurm_load_jobs error: Socket timed out")
        if self.squeue_empty_skip > 0:
            self.squeue_empty_skip -= 1
        elif self.squeue_empty > 0:
            self.squeue_empty -= 1
            self.ev(e="fault", pid=p.pid, k=p.label, kind="squeue-empty", at="squeue", b=self._bnum(p.batch))
            self.ev(e="squeue", pid=p.pid, ok=True, ans=[])
            return self._reply(p, h=h, rc=0, stdout="", stderr="")
        odd = False
        if self.squeue_odd_skip > 0:
            self.squeue_odd_skip -= 1
        elif self.squeue_odd > 0:
            self.squeue_odd -= 1
            odd = True
        disp = (lambda st: {"RUNNING": "SUSPENDED", "PENDING": "REQUEUED"}[st]) if odd else (lambda st: st)
        if "-j" in argv:
            hid = argv[argv.index("-j") + 1]
            b = self.batches.get(hid)
            if b and b["state"] in ("PENDING", "RUNNING"):
                outp = f"{hid:>12}  job_batch_{b['b']}  {disp(b['state'])}\n"
                ans = [[hid, disp(b["state"])]]
            else:
                outp, ans = "", []
            self.ev(e="squeue", pid=p.pid, ok=True, ans=ans)
            return self._reply(p, h=h, rc=0, stdout=outp, stderr="")
        ans = [[hid, disp(b["state"])] for hid, b in self.batches.items() if b["state"] in ("PENDING", "RUNNING")]
        outp = "".join(f"{hid:>18}  {s:<10}\n" for hid, s in ans)
        self.ev(e="squeue", pid=p.pid, ok=True, ans=ans)
        return self._reply(p, h=h, rc=0, stdout=outp, stderr="")

    def _scancel(self, p, argv):
        hid = argv[1]
        h = self._newh(type="quick", state="done", rc=0, owner=p.pid)
        b = self.batches.get(hid)
        self.ev(e="scancel", pid=p.pid, id=hid, b=(b["b"] if b else -1))
        if b and b["state"] == "PENDING":
            b["state"] = "CANCELLED"
            self.ev(e="hpc", what="cancel", id=hid, b=b["b"], active=self._active())
        elif b and b["state"] == "RUNNING":
            self.kill_node(hid, how="cancel")
        else:
            # as SLURM: a job that already left the queue cannot be cancelled
            return self._reply(p, h=h, rc=1, stdout="",
                               stderr=f"scancel: error: Kill job error on job id {hid}: Invalid job id specified")
        return self._reply(p, h=h, rc=0, stdout="", stderr="")

    # ------------------------------------------------------------------ HPC moves
    def node_host(self, hid):
        b = self.batches[hid]["b"]
        if self.scn.get("onehost"):
            return "node1"          # the scheduler places every batch on the same node: all node-side rounds share a hostname
        return self.scn.get("nodehost", {}).get(str(b), f"node{b}")

    def _start_batch(self, hid):
        b = self.batches[hid]
        b["state"] = "RUNNING"
        self.ev(e="hpc", what="start", id=hid, b=b["b"], active=self._active())
        env = {"SLURM_JOB_ID": hid, "SLURM_NODEID": "0", "LOCAL_SCRATCH": self.base,
               "SLURM_CPUS_ON_NODE": str(self.scn.get("cpus", 4))}
        self.spawn(argv=b["argv"], host=self.node_host(hid), env=env, batch=hid)

    def _job_exit(self, h):
        hd = self.handles[h]
        # exit codes may differ from one epoch (resubmission) to the next: a job that passed can fail when it is rerun
        nres = sum(1 for q in self.procs if q.label == "resubmit-jobs")
        rcs = self.scn.get("rc_by_epoch", {}).get(str(nres)) or self.scn.get("rc", {})
        rc = int(rcs.get(hd["job"], 0))
        hd["state"] = "done"
        hd["rc"] = rc
        if 0 < hd["owner"] <= len(self.procs):
            self.proc(hd["owner"]).idle = 0
        self.ev(e="jobexit", job=hd["job"], rc=rc, b=self._bnum(hd.get("batch")))
        self._job_event(hd, "end")
        # a job whose work is to write the next pipeline stage's configuration file (pipelines built from files)
        regen = getattr(self, "regen", {}).get(hd["job"])
        if regen:
            shutil.copyfile(regen["src"], regen["dst"])
            self.ev(e="regen", job=hd["job"], stage=regen["stage"])

    def kill_proc(self, p, why="kill"):
        """SIGKILL one virtual process (and, since they are its children, its nested commands and jobs)."""
        if not p.alive:
            return
        p.deferred = []      # announced but not begun: the operation it belongs to never starts
        at = p.req["op"] + ":" + os.path.basename(p.req.get("path") or "") + \
            (os.path.basename(p.req["argv"][0]) if p.req.get("argv") else "")
        p.reap(kill=True)
        self.ev(e="kill", pid=p.pid, k=p.label, host=p.host, at=at, why=why, nops=p.nops, nsteps=p.nsteps, b=self._bnum(p.batch),
                holder=bool(p.label != "run-jobs" and self._is_holder(p)), spin=bool(getattr(self, "spin_timeout", False)))
        for hd in self.handles.values():
            if hd.get("owner") == p.pid and hd["state"] == "running":
                hd["state"] = "dead"
        if p.parent is not None:
            ph = self.handles[p.parent]
            ph["state"] = "done"
            ph["rc"] = -9
        for q in self.procs:
            if q.alive and q.parent is not None and self.handles[q.parent].get("owner") == p.pid:
                self.kill_proc(q, why="parent died")

    def _is_holder(self, p):
        st = self.last_status.get(self.out) or {}
        return st.get("sub") == p.host

    def kill_node(self, hid, how="kill"):
        """The node of a running batch disappears (killed, timed out or scancel'ed)."""
        b = self.batches[hid]
        for q in self.procs:
            if q.alive and q.batch == hid:
                self.kill_proc(q, why="node " + how)
        b["state"] = {"kill": "KILLED", "timeout": "TIMEOUT", "cancel": "CANCELLED"}[how]
        self.ev(e="hpc", what=how, id=hid, b=b["b"], active=self._active(), spin=bool(getattr(self, "spin_timeout", False)))

    def _on_exit(self, p, code, exc, tb):
        self._flush(p)
        self.ev(e="exit", pid=p.pid, k=p.label, host=p.host, code=int(code), exc=exc, b=self._bnum(p.batch),
                clock=os.path.exists(os.path.join(self.out, CLUSTER_LOCK)))
        if self.debug and tb:
            print("TB", p.label, tb, file=sys.__stderr__)
        if exc:
            self.last_tb = getattr(self, "last_tb", [])
            self.last_tb.append((p.label, exc, tb))
        for hd in self.handles.values():
            if hd.get("owner") == p.pid and hd["state"] == "running":
                hd["state"] = "dead"
        if p.parent is not None:
            ph = self.handles[p.parent]
            ph["state"] = "done"
            ph["rc"] = int(code)
        if p.batch is not None and p.label == "run-jobs" and self.batches[p.batch]["state"] == "RUNNING":
            self.batches[p.batch]["state"] = "ENDED"
            self.ev(e="hpc", what="end", id=p.batch, b=self.batches[p.batch]["b"], active=self._active())
        self._watch(p)

    # ------------------------------------------------------------------ driving
    def quiescent_moves(self):
        """Moves that model time passing when nothing else can happen: a lock waiter times out; a
        runner that only sleeps hits its walltime."""
        moves = []
        for p in self.procs:
            if p.alive and p.req["op"] == "lock_blocked" and not self._step_enabled(p):
                moves.append(("locktimeout", p.pid))
        return moves

    def spinning(self, p):
        return p.alive and p.req["op"] == "sleep" and p.idle >= 3

    def run(self, chooser, max_steps=20000):
        """Run until nothing is enabled. chooser(world, moves) picks one."""
        n = 0
        while n < max_steps:
            moves = self.enabled()
            real = [m for m in moves if not (m[0] == "step" and self.spinning(self.proc(m[1])))]
            if not real:
                q = self.quiescent_moves()
                if q:
                    self.do(q[0])
                    n += 1
                    continue
                spin = [m for m in moves if m[0] == "step"]
                if spin:
                    # only sleepers are left: if a sleeper belongs to a node, the node times out
                    p = self.proc(spin[0][1])
                    if p.batch is not None and self.batches[p.batch]["state"] == "RUNNING":
                        self.spin_timeout = True
                        self.do(("nodekill", p.batch, "timeout"))
                        self.spin_timeout = False
                    elif p.idle > 200:
                        self.ev(e="hang", pid=p.pid, k=p.label, host=p.host)
                        self.kill_proc(p, why="spin")
                    else:
                        self.do(spin[0])
                    n += 1
                    continue
                return n
            self.do(chooser(self, real))
            n += 1
        raise HarnessError("max_steps exceeded")

    def close(self):
        for p in self.procs:
            if p.alive:
                p.reap(kill=True)
        for fh in self.__dict__.get("_evfh", {}).values():
            if not fh.closed:
                fh.close()

    def hpc_idle(self):
        return self._active() == 0
